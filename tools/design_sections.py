"""regenerate the tables of DESIGN.md section 13 (repaired defects / recorded findings) from known_findings.json
usage: design_sections.py  (rewrites the text between the markers in DESIGN.md)"""
import json, re, subprocess
ROOT = "/verif"
d = json.load(open(ROOT + "/known_findings.json"))
rows = []
for f in d["fixed"]:
    m = re.match(r"fixed: property=(\S+) (\w+) (.*?)(?: -- failing inputs?(?: \([^)]*\))?: (.*))?$", f, re.S)
    prop, h, what, inp = m.group(1), m.group(2), m.group(3), m.group(4) or ""
    rows.append(f"| {prop} | `{h}` | {what.replace('|', '/')} | {inp.replace('|', '/')} |")
n_commits = sum(1 for l in subprocess.run(["git", "-C", "/repo", "log", "--format=%s"], capture_output=True, text=True).stdout.split("\n") if l.startswith("fix:"))
open_ = [e for e in d["findings"] if e.get("status") == "open"]
kinds = {"input": "input-identified", "class": "class-identified", "program": "program-identified"}
lines = [f"Every entry was confirmed with plain clingo on the concrete instance the solver produced. **Repaired** ({n_commits} unguarded",
         "`fix:` commits in /repo, one per defect; the unedited test-suite passes after every one; the same list with commit hashes",
         "is the `fixed` array of `known_findings.json`):", "",
         "| property | commit | repair | failing input |", "|---|---|---|---|"] + rows + ["",
         "**Recorded, not repaired** (`known_findings.json`; each is pinned verbatim by a stored expectation of the repository's",
         "tests or its repair is not local, the reason is given per entry under `why_not_fixed`):", ""]
for e in open_:
    lines.append(f"* **{e['id']}** ({kinds[e['match']['type']]}; {', '.join(e.get('properties', []))}): {e['what']}")
text = open(ROOT + "/DESIGN.md").read()
a = text.index("<!-- BEGIN GENERATED 13 -->") + len("<!-- BEGIN GENERATED 13 -->\n")
b = text.index("<!-- END GENERATED 13 -->")
open(ROOT + "/DESIGN.md", "w").write(text[:a] + "\n".join(lines) + "\n" + text[b:])
print(len(rows), "repaired,", len(open_), "recorded")
