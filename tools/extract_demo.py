"""heuristically extract (program, IN, OUT) from a seeded demo.py"""
import re, sys, json
def extract(path):
    t = open(path).read()
    progs = [m.group(2).strip() for m in re.finditer(r'(?s)(\w+)\s*=\s*(?:r|f)?"""(.*?)"""', t) if ":-" in m.group(2) or "{" in m.group(2)]
    progs = [p for p in progs if not p.lstrip().startswith(("C1", "C0", "Demo", "demo", "m1", "m2", "m3")) and len(p) < 1500]
    # programs given as bare triple-quoted strings inside a list / call: keep what clingo parses
    for m in re.finditer(r'(?s)"""(.*?)"""', t):
        cand = m.group(1).strip()
        if cand in progs or not (":-" in cand or "{" in cand) or len(cand) >= 1500:
            continue
        try:
            from clingo.ast import parse_string
            parse_string(cand, lambda x: None, logger=lambda c, m_: None)
        except Exception:  # noqa
            continue
        progs.append(cand)
    # any other string constant of the script that clingo parses as a program with at least one rule
    try:
        import ast as _pyast
        from clingo.ast import ASTType, parse_string

        for node in _pyast.walk(_pyast.parse(t)):
            if isinstance(node, _pyast.Constant) and isinstance(node.value, str):
                cand = node.value.strip()
                if cand in progs or ":-" not in cand or len(cand) >= 1500 or not cand.endswith("."):
                    continue
                stms = []
                try:
                    parse_string(cand, stms.append, logger=lambda c, m_: None)
                except Exception:  # noqa
                    continue
                if any(x.ast_type == ASTType.Rule and x.body for x in stms) and not all(
                        x.ast_type == ASTType.Program or (x.ast_type == ASTType.Rule and not x.body) for x in stms):
                    progs.append(cand)
    except SyntaxError:
        pass

    def preds(names):
        for nm in names:
            m = re.search(nm + r'\w*\s*(?::[^=]*)?=\s*(\[.*?\])\s*$', t, re.M | re.S)
            if m:
                ps = re.findall(r'\(\s*"(\w+)"\s*,\s*(\d+)\s*\)', m.group(1))
                if ps or m.group(1).strip() == "[]":
                    return [[a, int(b)] for a, b in ps]
        return None
    return progs, preds(["INPUT", "IN", "input_pred", "INP"]), preds(["OUTPUT", "OUT", "output_pred"])
if __name__ == "__main__":
    for p in sys.argv[1:]:
        progs, i, o = extract(p)
        print("=====", p, "IN", i, "OUT", o)
        for g in progs: print(g); print("--")
