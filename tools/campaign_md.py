"""write seeded/CAMPAIGN.md from the meta.json files"""
import json, os
rows = []
for sid in sorted(os.listdir("/verif/seeded")):
    p = f"/verif/seeded/{sid}/meta.json"
    if not os.path.exists(p):
        continue
    m = json.load(open(p))
    det = m.get("detection", {})
    caught = [k for k, v in det.items() if v.get("quick_exit") == 1 and v.get("violations", 0) > 0]
    rows.append((sid, m.get("breaks_property"), caught, {k: (v.get("quick_exit"), v.get("violations")) for k, v in det.items()}, (m.get("summary") or "")[:110].replace("|", "/").replace("\n", " ")))
out = ["# Seeded changes vs. quick checks", "", "| seed | breaks | caught by | all results (exit, violations) | change |", "|---|---|---|---|---|"]
for sid, prop, caught, det, summ in rows:
    out.append(f"| {sid} | {prop} | {', '.join(caught) or '**missed**'} | {det} | {summ} |")
out.append("")
out.append(f"caught {sum(1 for r in rows if r[2])} of {len(rows)}")
open("/verif/seeded/CAMPAIGN.md", "w").write("\n".join(out) + "\n")
print(out[-1])
