"""build corpus/D.json: the programs (and instance-derived universes) of the seeded changes' demonstrations.
Programs are data; which change they came from is recorded for DESIGN.md, the checks treat them like any corpus entry."""
import json, os, re, sys
sys.path.insert(0, "/verif")
import clingo
from tools.extract_demo import extract  # noqa

def instance_universe(t):
    """per predicate position the values (<= 3) seen in fact-only strings of the demo"""
    pos = {}
    for m in re.finditer(r'"((?:\s*[a-z_]\w*(?:\([^"()]*(?:\([^"()]*\)[^"()]*)*\))?\s*\.\s*)+)"', t):
        txt = m.group(1)
        try:
            ctl = clingo.Control(logger=lambda c, m_: None)
            ctl.add("base", [], txt)
            ctl.ground([("base", [])])
        except RuntimeError:
            continue
        for sa in ctl.symbolic_atoms:
            s = sa.symbol
            cols = pos.setdefault(f"{s.name}/{len(s.arguments)}", [[] for _ in s.arguments])
            for i, a in enumerate(s.arguments):
                if a not in cols[i]:
                    cols[i].append(a)
    return {k: [[str(x) for x in sorted(c)[:3]] for c in cols] for k, cols in pos.items() if all(cols) or not cols}

out = []
for sid in sorted(os.listdir("/verif/seeded")):
    dp = f"/verif/seeded/{sid}/demo.py"
    if not os.path.exists(dp):
        continue
    meta = json.load(open(f"/verif/seeded/{sid}/meta.json"))
    t = open(dp).read()
    progs, i, o = extract(dp)
    up = instance_universe(t)
    for k, prog in enumerate(progs):
        prog = "\n".join(l for l in prog.split("\n") if not l.strip().startswith("%")).strip()
        if not prog:
            continue
        e = {"id": f"D-{sid}-{k}", "text": prog, "in": i, "out": o, "prop": meta.get("breaks_property"), "universe_pos": up or None}
        out.append(e)
json.dump(out, open("/verif/corpus/D.json", "w"), indent=1)
print(len(out), "entries")
from collections import Counter
print(Counter(e["prop"] for e in out))
