"""dev: run one program through ngo + E1.  usage: one.py <trait,trait|default|all|none> <V mode> [--out p/1,q/2] [--in ...] < program"""
import sys, json
sys.path.insert(0, "/verif")
from vf import e1
args = sys.argv[1:]
enabled = args[0] if args[0] in ("default", "all", "none") else args[0].split(",")
mode = args[1] if len(args) > 1 else "voc"
def plist(s): return [[x.split("/")[0], int(x.split("/")[1])] for x in s.split(",") if x]
out = plist(args[args.index("--out") + 1]) if "--out" in args else []
inp = plist(args[args.index("--in") + 1]) if "--in" in args else None
text = sys.stdin.read()
from vf import kf
_t = {"id": "one", "text": text, "in": inp, "out": out, "enabled": enabled, "V": mode, "tier": "thorough" if "--thorough" in args else "quick", "one_to_one": "--1to1" in args, "open_all": "--openall" in args}
_t["kf"] = kf.class_entries(kf.load(), enabled)
r = e1.run_task(_t)
print(r.get("result")); print("status:", r["status"], r.get("reason"), "changed", r.get("changed"), "IN", r.get("in"))
for d in r.get("decided", []):
    print(" ", d["universe"], d["status"], d.get("reason"), [(q["q"], q.get("path"), q["verdict"]) for q in d["queries"]], d.get("instance_atoms"))
if r.get("counterexample"): print(json.dumps(r["counterexample"], default=str)[:1200])
if r.get("trace"): print(r["trace"])
