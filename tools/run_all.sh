#!/bin/sh
# run every claimed check once on the current tree; usage: tools/run_all.sh quick|thorough [ids...]
cd "$(dirname "$0")/.." || exit 3
tier=${1:-quick}; shift
ids=${*:-$(python3 -c "import json; print(' '.join(c['property_id'] for c in json.load(open('MANIFEST.json'))['checks']))")}
for p in $ids; do
  s=$(date +%s); out=$(./check $p $tier 2>&1); rc=$?; e=$(date +%s)
  echo "$p rc=$rc $((e-s))s :: $(echo "$out" | grep -c '^VIOLATION') violations :: $(echo "$out" | tail -1 | cut -c1-170)"
done
