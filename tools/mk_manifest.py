"""regenerate /verif/MANIFEST.json from the table below"""
import json, os
ROOT = os.path.dirname(os.path.dirname(os.path.abspath(__file__)))
E1_NOTE = ("Trusted: gringo's grounding (it defines the semantics the property refers to), clingo in replays, clingo's AST printer/parser, z3 5.1.0 "
           "(sampled cross-check with z3 4.8.12 / cvc5), the encoder (guarded by validation against clingo, sabotage twins and mandatory replay). "
           "The quantifier over PROGRAMS and TRAIT SUBSETS is a corpus (sampled); the quantifier over INSTANCES and ANSWER SETS is decided by the solver "
           "within the stated universe (default 3 values per argument position).")
def e1(pid, text, tech="SMT (z3) translation validation of the real ngo output: all instances over a bounded universe, answer sets and certificates symbolic; clingo replay"):
    return {"property_id": pid, "quick_cmd": f"./check {pid} quick", "thorough_cmd": f"./check {pid} thorough", "evidence_file": f"evidence/{pid}.json",
            "replay_cmd_template": "./check replay {path}", "engine": "E1-TV",
            "level_claimed": {"category": "translation_validation", "text": text, "design_ref": "DESIGN.md sections 2, 3, 6"},
            "level_note": E1_NOTE, "technique": tech}
CHECKS = []
NA = []
def load_extra():
    p = os.path.join(ROOT, "tools", "manifest_table.json")
    return json.load(open(p))
tab = load_extra()
for c in tab["checks"]:
    if c.get("engine") == "E1":
        CHECKS.append(e1(c["id"], c["text"]))
    else:
        CHECKS.append({"property_id": c["id"], "quick_cmd": f"./check {c['id']} quick", "thorough_cmd": f"./check {c['id']} thorough", "evidence_file": f"evidence/{c['id']}.json",
                       "replay_cmd_template": "./check replay {path}", "engine": c["engine"],
                       "level_claimed": {"category": c["category"], "text": c["text"], "design_ref": c["design_ref"]}, "level_note": c["note"], "technique": c["technique"]})
man = {
 "version": 1,
 "setup_cmd": "./check setup",
 "hooks": {"guard": "NGO_VERIF", "enable": "no source hooks: the harness imports ngo from /repo/src (editable install of /venv) and wraps functions at run time only",
           "baseline_off_cmd": "cd /repo && /venv/bin/python -m pytest -ra -q -p no:cacheprovider --timeout=900 --continue-on-collection-errors", "source_commits": [], "add_only": True},
 "engines": tab["engines"],
 "checks": CHECKS,
 "not_applicable": tab["not_applicable"],
 "notes": tab["notes"],
}
json.dump(man, open(os.path.join(ROOT, "MANIFEST.json"), "w"), indent=1)
print("checks:", [c["property_id"] for c in CHECKS])
