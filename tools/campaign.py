"""run every kept seeded change against its property's check (quick tier) and record the outcome in meta.json
usage: campaign.py [--tier quick] [seed ids...]"""
import json, os, subprocess, sys, time
args = [a for a in sys.argv[1:] if not a.startswith("--")]
tier = "thorough" if "--thorough" in sys.argv else "quick"
seeds = args or sorted(os.listdir("/verif/seeded"))
rows = []
for sid in seeds:
    d = f"/verif/seeded/{sid}"
    if not os.path.exists(d + "/patch.diff"):
        continue
    meta = json.load(open(d + "/meta.json"))
    prop = meta.get("breaks_property", sid.split("-")[0])
    props = [prop] + [p for p in meta.get("also_check", []) if p != prop]
    r = subprocess.run(["/venv/bin/python", "/verif/tools/mutest.py", d] + props + ["--skip-confirm", "--tier", tier], capture_output=True, text=True)
    try:
        res = json.loads(r.stdout)
    except Exception:
        print(sid, "FAILED", r.stdout[-300:], r.stderr[-300:]); continue
    det = meta.setdefault("detection", {})
    for p in props:
        if p in res:
            det[p] = {f"{tier}_exit": res[p]["exit"], "violations": res[p]["violations"], "seconds": res[p]["s"], "first": res[p]["first"][:1]}
    meta["applies_to_current_repo"] = res.get("applied_to_repo")
    json.dump(meta, open(d + "/meta.json", "w"), indent=1)
    rows.append((sid, res.get("applied_to_repo"), {p: (res[p]["exit"], res[p]["violations"]) for p in props if p in res}))
    print(*rows[-1], flush=True)
caught = sum(1 for _, ok, r in rows if ok and any(v[0] == 1 for v in r.values()))
print(f"caught {caught}/{len(rows)}")
