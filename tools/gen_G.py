"""(re)generate the frozen generated families corpus/G_<prop>.json from tools/G/<prop>.py"""
import importlib.util, json, os, sys
sys.path.insert(0, "/verif")
from vf import gen
ROOT = "/verif"
props = sys.argv[1:] or sorted(f[:-3] for f in os.listdir(ROOT + "/tools/G") if f.endswith(".py"))
for p in props:
    spec = importlib.util.spec_from_file_location(p, f"{ROOT}/tools/G/{p}.py")
    m = importlib.util.module_from_spec(spec); spec.loader.exec_module(m)
    entries = gen.family(p, m.T, cap=getattr(m, "CAP", 60))
    extra = getattr(m, "EXTRA", [])
    json.dump(extra + entries, open(f"{ROOT}/corpus/G_{p}.json", "w"), indent=1)
    print(p, len(entries) + len(extra))
