"""One-off: freeze the input programs of the repository's parametrised tests into corpus/T.json.
(programs are data; ngo's behaviour on them is recomputed from /repo on every run)"""
import importlib, json, sys, hashlib
sys.path.insert(0, "/repo")
TESTMAP = {
    "cleanup": "tests.test_cleanup", "unused": "tests.test_unused", "duplication": "tests.test_literal_duplication",
    "symmetry": "tests.test_symmetry", "minmax_chains": "tests.test_minmax_aggregates", "sum_chains": "tests.test_sum_aggregates",
    "math": "tests.test_math_simplification", "inline": "tests.test_inline", "projection": "tests.test_projection",
    "none": "tests.test_normalize", "regression": "tests.test_regression", "dependency": "tests.test_dependency",
    "ast": "tests.test_ast", "global": "tests.test_global",
}
out, seen = [], set()
for trait, modname in TESTMAP.items():
    mod = importlib.import_module(modname)
    for name in sorted(dir(mod)):
        f = getattr(mod, name)
        for mark in getattr(f, "pytestmark", []):
            if mark.name != "parametrize":
                continue
            names = [x.strip() for x in mark.args[0].split(",")]
            for case in mark.args[1]:
                d = dict(zip(names, case if isinstance(case, tuple) else (case,)))
                prg = d.get("lhs") or d.get("prg") or d.get("rule") or d.get("input_")
                if not isinstance(prg, str):
                    continue
                inp = d.get("input_predicates"); outp = d.get("output_predicates")
                key = (trait, prg, str(inp), str(outp))
                if key in seen:
                    continue
                seen.add(key)
                out.append({"id": "T-%s-%s" % (trait, hashlib.sha1(repr(key).encode()).hexdigest()[:8]), "trait": trait, "test": name,
                            "text": prg, "in": None if inp is None else sorted([p.name, p.arity] for p in inp),
                            "out": None if outp is None else sorted([p.name, p.arity] for p in outp)})
json.dump(out, open("/verif/corpus/T.json", "w"), indent=1)
print(len(out))
from collections import Counter
print(Counter(o["trait"] for o in out))
