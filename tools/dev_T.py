"""dev: run E1 over the T corpus for one trait"""
import sys, json, time, collections
sys.path.insert(0, "/verif")
from vf import pool
trait = sys.argv[1]
tier = sys.argv[2] if len(sys.argv) > 2 else "quick"
T = json.load(open("/verif/corpus/T.json"))
tasks = []
for e in T:
    if e["trait"] != trait: continue
    V = "inout" if trait in ("unused", "inline") else "voc"
    tasks.append({"id": e["id"], "text": e["text"], "in": e["in"], "out": e["out"], "enabled": [trait] if trait != "none" else [], "V": V,
                  "costs": True, "one_to_one": trait in ("duplication", "projection", "none"), "tier": tier})
t0 = time.time()
res = pool.run_tasks("vf.e1:run_task", tasks, workers=14, task_timeout=300)
print("wall", time.time() - t0)
c = collections.Counter((r["status"], r.get("changed")) for r in res)
print(c)
for r in res:
    if r["status"] not in ("held", "skip"):
        print("-----", r["id"], r["status"], r.get("reason"))
        if r.get("counterexample"): print(r["source"]); print("=>"); print(r["result"]); print(json.dumps(r["counterexample"], default=str)[:1500])
        if r.get("trace"): print(r["trace"])
json.dump(res, open(f"/tmp/w/dev_{trait}.json", "w"), indent=1, default=str)
