"""Confirm a seeded change and run checks against it.
usage: mutest.py <dir with patch.diff demo.py meta.json> <PROP> [<PROP> ...] [--tier quick] [--skip-confirm]
1. confirm in a scratch worktree: patch applies, test-suite passes, demo exits 1 with / 0 without the patch
2. apply to /repo, run ./check <PROP> <tier>, undo"""
import json, os, subprocess, sys, shutil, time
d = os.path.abspath(sys.argv[1])
args = sys.argv[2:]
tier = "quick"
if "--tier" in args:
    i = args.index("--tier"); tier = args[i + 1]; del args[i:i + 2]
skip = "--skip-confirm" in args
args = [a for a in args if not a.startswith("--")]
patch = os.path.join(d, "patch.diff")
out = {"dir": d, "props": args, "tier": tier}
def sh(cmd, **kw):
    return subprocess.run(cmd, shell=True, capture_output=True, text=True, **kw)
if not skip:
    wt = "/tmp/mv_" + str(os.getpid())
    sh(f"git -C /repo worktree add -q --detach {wt} HEAD")
    try:
        env = dict(os.environ, PYTHONPATH=f"{wt}/src")
        r0 = subprocess.run(["/venv/bin/python", os.path.join(d, "demo.py")], capture_output=True, text=True, env=env, cwd=wt, timeout=600)
        out["demo_without"] = r0.returncode
        a = sh(f"git -C {wt} apply {patch}")
        out["applies"] = a.returncode == 0
        if a.returncode == 0:
            t = subprocess.run(["/venv/bin/python", "-m", "pytest", "-q", "-p", "no:cacheprovider", "-x"], capture_output=True, text=True, env=env, cwd=wt, timeout=900)
            out["tests"] = t.stdout.strip().split("\n")[-1]
            r1 = subprocess.run(["/venv/bin/python", os.path.join(d, "demo.py")], capture_output=True, text=True, env=env, cwd=wt, timeout=600)
            out["demo_with"] = r1.returncode
            out["demo_out"] = (r1.stdout + r1.stderr)[-400:]
    finally:
        sh(f"git -C /repo worktree remove --force {wt}")
    out["confirmed"] = bool(out.get("applies") and "passed" in out.get("tests", "") and "failed" not in out.get("tests", "") and out.get("demo_with") == 1 and out.get("demo_without") == 0)
assert sh("git -C /repo status --porcelain").stdout.strip() == "", "/repo not clean"
a = sh(f"git -C /repo apply {patch}")
out["applied_to_repo"] = a.returncode == 0
if a.returncode != 0:
    a3 = sh(f"git -C /repo apply --3way {patch}")
    out["applied_to_repo"] = a3.returncode == 0
    out["apply_err"] = (a.stderr + a3.stderr)[-300:]
import shutil as _sh
_bak = {}
for p in args:
    f = f"/verif/evidence/{p}.json"
    if os.path.exists(f):
        _bak[f] = f + ".bak"; _sh.copy(f, f + ".bak")
try:
    for p in args if out["applied_to_repo"] else []:
        t0 = time.time()
        r = subprocess.run(["./check", p, tier], capture_output=True, text=True, cwd="/verif")
        lines = [l for l in r.stdout.split("\n") if l.startswith("VIOLATION") or l.startswith("KNOWN")]
        out[p] = {"exit": r.returncode, "violations": len([l for l in lines if l.startswith("VIOLATION")]), "s": round(time.time() - t0), "first": lines[:2], "tail": r.stdout.strip().split("\n")[-1][:200], "err": r.stderr[-300:] if r.returncode not in (0, 1) else ""}
finally:
    sh("git -C /repo reset -q --hard HEAD")
    for f, b in _bak.items():
        _sh.move(b, f)
print(json.dumps(out, indent=1))
