import json, sys, glob, os
prop = sys.argv[1]
for d in sorted(glob.glob(f"/verif/evidence/replay/{prop}/*")):
    cfg = json.load(open(d + "/config.json"))
    print("=" * 100); print(d, "enabled=", cfg["enabled"], "mode", cfg["mode"], "reason:", cfg["reason"])
    print(open(d + "/source.lp").read().strip()); print("  =>"); print(open(d + "/result.lp").read().strip())
    print("IN", cfg["in"], "OUT", cfg["out"]); print("instance:", open(d + "/instance.lp").read().strip())
    print("replay:", json.dumps(cfg["replay"])[:700])
