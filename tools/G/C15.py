"""G family for C15 (inline)"""
UP = {"pp/3": [["0", "1"], ["0", "1"], ["1", "2"]], "pa/2": [["0", "1"], ["1", "2"]]}
O = lambda *xs: {"outs": [[list(x) for x in o] for o in xs], "universe_pos": UP}  # noqa
P = "{ p(A,X,W) } :- pp(A,X,W).\n"
T = [
 ("readme", "{ a(X,Y) } :- pa(X,Y).\ninline(A,S) :- g(A), S = #sum { W,X : a(X,W), f(A,X) }.\nfoo(T) :- T = #sum { S,A : inline(A,S) }.", O([("foo", 1)])),
 ("agg", P + "helper(A,S) :- g(A), S = #[[sum|sum+|count]] { W,X : p(A,X,W) }.\nfoo(T) :- T = #[[sum|sum+]] { S,A : helper(A,S) }.", O([("foo", 1)])),
 ("aggcount", P + "helper(A,S) :- g(A), S = #count { X : p(A,X,_) }.\nfoo(T) :- T = #[[sum|count]] { S,A : helper(A,S) }.", O([("foo", 1)])),
 ("minmax", P + "helper(A,S) :- g(A), S = #[[min|max]] { W,X : p(A,X,W) }.\nfoo(T) :- T = #[[min|max|sum]] { S,A : helper(A,S) }.", O([("foo", 1)])),
 ("weightkey", P + "helper(A,S) :- g(A), S = #sum { W,X : p(A,X,W) }.\nfoo(T) :- T = #sum { [[A|S|S,S]] : helper(A,S) }.", O([("foo", 1)])),
 ("twice", P + "helper(A,S) :- g(A), S = #sum { W,X : p(A,X,W) }.\nfoo(T) :- T = #sum { S,A : helper(A,S) }, helper(1,Z), Z > 1.", O([("foo", 1)])),
 ("twouses", P + "helper(A,S) :- g(A), S = #sum { W,X : p(A,X,W) }.\nfoo(T) :- T = #sum { S,A : helper(A,S) }.\nbar(A) :- helper(A,S), S > 1.", O([("foo", 1), ("bar", 1)])),
 ("twodefs", P + "helper(A,S) :- g(A), S = #sum { W,X : p(A,X,W) }.\nhelper(A,0) :- h(A).\nfoo(T) :- T = #sum { S,A : helper(A,S) }.", O([("foo", 1)])),
 ("clash", P + "helper(A,S) :- g(A), S = #sum { W,X : p(A,X,W) }.\nfoo(X,T) :- T = #sum { S,A : helper(A,S) }, d(X).", O([("foo", 2)])),
 ("clash2", P + "helper(A,S) :- g(A), S = #sum { W,X : p(A,X,W) }.\nfoo(W,T) :- T = #sum { S,A : helper(A,S) ; W,x : d(W) }, d(W).", O([("foo", 2)])),
 ("extrabody", P + "helper(A,S) :- g(A), [[not h(A)|h(A)|A > 0]], S = #sum { W,X : p(A,X,W) }.\nfoo(T) :- T = #sum { S,A : helper(A,S) }.", O([("foo", 1)])),
 ("headrep", P + "helper(A,A,S) :- g(A), S = #sum { W,X : p(A,X,W) }.\nfoo(T) :- T = #sum { S,A,B : helper(A,B,S) }.", O([("foo", 1)])),
 ("headconst", P + "helper(A,1,S) :- g(A), S = #sum { W,X : p(A,X,W) }.\nfoo(T) :- T = #sum { S,A : helper(A,1,S) }.", O([("foo", 1)])),
 ("anonuse", P + "helper(A,S) :- g(A), S = #sum { W,X : p(A,X,W) }.\nfoo(T) :- T = #sum { S : helper(_,S) }.", O([("foo", 1)])),
 ("siblings", P + "helper(A,S) :- g(A), S = #sum { W,X : p(A,X,W) }.\nfoo(T) :- T = #sum { S,A : helper(A,S) ; [[V,B|V,B,x|1,2]] : q(B,V) }.", O([("foo", 1)])),
 ("isout", P + "helper(A,S) :- g(A), S = #sum { W,X : p(A,X,W) }.\nfoo(T) :- T = #sum { S,A : helper(A,S) }.", O([("foo", 1), ("helper", 2)])),
 ("isin", P + "helper(A,S) :- g(A), S = #sum { W,X : p(A,X,W) }.\nfoo(T) :- T = #sum { S,A : helper(A,S) }.", {"in": [["helper", 2], ["pp", 3], ["g", 1]], "outs": [[["foo", 1]]], "universe_pos": UP}),
 ("static", "helper(A,S) :- g(A), S = #sum { W,X : pp(A,X,W) }.\nfoo(T) :- T = #sum { S,A : helper(A,S) }.", O([("foo", 1)])),
 ("body", P + "helper(A,S) :- g(A), S = #sum { W,X : p(A,X,W) }.\nfoo(A) :- helper(A,S), T = #sum { W : q(A,W) }, S [[>|=|+1 <]] T.", O([("foo", 1)])),
 ("bodynot", P + "helper(A,S) :- g(A), S = #sum { W,X : p(A,X,W) }.\nfoo(A) :- g(A), not helper(A,[[2|_|S]]).", O([("foo", 1)])),
 ("bodynot1", P + "helper(S) :- S = #sum { W,X : p(_,X,W) }.\nfoo :- not helper([[2|1]]).", O([("foo", 0)])),
 ("bodyplain", P + "helper(A,S) :- g(A), S = #sum { W,X : p(A,X,W) }.\nfoo(A) :- helper(A,S), S [[>|<=]] 2.", O([("foo", 1)])),
 ("weak", P + "helper(A,S) :- g(A), S = #sum { W,X : p(A,X,W) }.\n:~ helper(A,S). [S@1,A]", O([], [("helper", 2)])),
 ("weak2", P + "helper(A,S) :- g(A), S = #sum { W,X : p(A,X,W) }.\n:~ helper(A,S). [S@1,A]\n:~ q(B,V). [[[V@1,B|V@2,B|V@1,B,x]]]", O([])),
 ("weakdirect", P + ":~ g(A), S = #[[sum|count]] { W,X : p(A,X,W) }. [S@1,A]", O([])),
 ("weakdirect2", P + ":~ g(A), S = #sum { W,X : p(A,X,W) }. [S@1,A]\n:~ q(B,V). [V@1,B]", O([])),
 ("weakdirect3", P + ":~ g(A), S = #sum { W,X : p(A,X,W) }, S > 1. [S@1,A]", O([])),
 ("weakneg", P + ":~ g(A), S = #sum { W,X : p(A,X,W) }. [-S@1,A]", O([])),
 ("mini", P + "helper(A,S) :- g(A), S = #sum { W,X : p(A,X,W) }.\n#[[minimize|maximize]] { S,A : helper(A,S) }.", O([])),
 ("chain3", P + "h1(A,S) :- g(A), S = #sum { W,X : p(A,X,W) }.\nh2(T) :- T = #sum { S,A : h1(A,S) }.\nfoo(U) :- U = #sum { T : h2(T) ; 1,x : e }.", O([("foo", 1)])),
 ("localglobal", P + "helper(A,S) :- g(A), S = #sum { W,X : p(A,X,W), f(A) }.\nfoo(T) :- T = #sum { S,A : helper(A,S), k(A) }.", O([("foo", 1)])),
 ("emptyagg", P + "helper(A,S) :- g(A), S = #[[sum|min|max]] { W,X : p(A,X,W) }.\nfoo(T) :- T = #[[sum|min|max]] { S,A : helper(A,S) }.\n:- foo(T), bad(T).", O([])),
]
CAP = 30
