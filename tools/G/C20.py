"""G family for C20: domain sources x users of domain / order predicates"""
DEFS = "[[def:{ a(X,Y) } :- e(X,Y).|{ a(X,Y) : e(X,Y) } 1 :- g(X).|1 { a(X,Y) : f(Y) } 1 :- g(X).|a(X,Y) ; b(X,Y) :- e(X,Y).|{ c(X) } :- pc(X).\\na(X,Y) :- e(X,Y), not c(X).|a(X,Y) :- e(X,Y), not c(X).|{ a(X,Y) } :- e(X,Y).\\n{ a(X,Y) } :- f2(X,Y), g(X).|{ k(X,Z) } :- pk(X,Z).\\n{ a(X,Y) } :- e(X,Y), h(Z) : k(X,Z).|{ a(X,(1..2)) } :- g(X).|{ a(X,Y) } :- e(X,Y).\\na(X,Y) :- a(X,Z), n(Z,Y).|#sum { 1,Y : a(X,Y) : f(Y) } 1 :- g(X).|{ d(X) } :- pd(X).\\n{ a(X,Y) } :- d(X), e(X,Y).|{ a(X,Y+1) } :- e(X,Y).|{ a(X,Y) : e(X,Y), not c(Y) }.]]\n"
T = [
 ("sym", DEFS + ":- a(X,Y1), a(X,Y2), Y1 != Y2.", {"traits": ["symmetry"]}),
 ("sym2", DEFS + "h(Y) :- a(X1,Y), a(X2,Y), X1 < X2.", {"traits": ["symmetry"]}),
 ("minmax", DEFS + "r(X,M) :- g(X), M = #[[max|min]] { Y : a(X,Y) }.", {"traits": ["minmax_chains"]}),
 ("minmax2", DEFS + "r(M) :- M = #max { Y,X : a(X,Y) }.", {"traits": ["minmax_chains"]}),
 ("sum", "[[{ a(X,Y) : e(X,Y) } 1 :- g(X).|1 { a(X,Y) : f(Y) } 1 :- g(X).|{ c(X) } :- pc(X).\\n{ a(X,Y) : e(X,Y), not c(Y) } 1 :- g(X).|{ d(X) } :- pd(X).\\n{ a(X,Y) : e(X,Y) } 1 :- d(X).|{ a(X,Y) : e(X,Y) } 1 :- g(X), not c(X).|{ a(X,(1..3)) } 1 :- g(X).]]\nt(S) :- S = #sum { Y,X : a(X,Y) }.", {"traits": ["sum_chains"]}),
 ("sum2", "{ a(X,Y,Z) : e(X,Y), f(Z) } 1 :- g(X).\n#minimize { Y,X : a(X,Y,_) }.\n#minimize { Z@2,X : a(X,_,Z) }.", {"traits": ["sum_chains"]}),
 ("order", "{ s(P,V) } :- ps(P,V).\ns(P,V) :- base(P,V).\nr(P,X) :- g(P), X = #[[max|min]] { V : s(P,V) }.\n#minimize { X,P : r(P,X) }.", {"traits": ["minmax_chains"]}),
 ("usebefore", "{ p(X) } :- s(X).\ns(X) :- e(X).\ne(X) :- c(X).\n{ c(X) } :- pc(X).\nm(M) :- M = #max { X : p(X) }.", {"traits": ["minmax_chains"]}),
 ("cond", "{ c(X,Y) } :- pc(X,Y). { b(Y) } :- pb(Y).\na(X) :- d(X), c(X,Y) : b(Y).\n{ p(X) } :- a(X).\nm(M) :- M = #max { X : p(X) }.", {"traits": ["minmax_chains"]}),
 ("partial", "{ q(X) } :- pq(X).\nc(X) :- d(X), 1 <= #sum { 1,Y : q(Y), l(X,Y) }.\n{ p(X) } :- c(X).\n{ p(X) } :- d2(X).\nm(M) :- M = #max { X : p(X) }.", {"traits": ["minmax_chains"]}),
 ("samename", "{ seat(P,T) } :- ps(P,T). { seat(P,T,S) } :- ps3(P,T,S).\n:- seat(P,T1), seat(P,T2), T1 != T2.\n:- seat(P,T,S1), seat(P,T,S2), S1 != S2.", {"traits": ["symmetry"]}),
 ("dneg_dep", "{ sel(X) } :- d(X).\nb(X) :- d(X), [[not not|not]] sel(X).\n{ c(X) } :- b(X).\n[[two_c :- c(X), c(Y), X < Y.|m(M) :- M = #max { X : c(X) }.]]", {"traits": ["symmetry", "minmax_chains"]}),
 ("dneg_loop", "on(X) :- d(X), not not on(X).\n{ e(X,Y) } :- on(X), d(Y).\ntwo_e(X) :- e(X,Y), e(X,Z), Y < Z.", {"traits": ["symmetry"]}),
 ("input_choice", "{ d(X) } :- e(X).\n{ c(X) } :- d(X).\n[[two_c :- c(X), c(Y), X < Y.|m(M) :- M = #max { X : c(X) }.]]", {"traits": ["symmetry", "minmax_chains"], "in": [["d", 1], ["e", 1]]}),
 ("hagg_dom", "#[[max|min|sum+|sum|count]] { X : a(G,X) : d(X) } = M :- top(G,M).\na(G,0) :- base(G).\ntwo(G) :- a(G,X), a(G,Y), X < Y.", {"traits": ["symmetry"]}),
 ("condlit_dom", "{ r(Y) : d(Y) }.\n{ q(P,X) : n(P) } :- d(X), r(Y) : s(X,Y).\n:- q(P1,X), q(P2,X), P1 != P2.", {"traits": ["symmetry"]}),
]
CAP = 40
