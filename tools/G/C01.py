"""G family for C01 (whole pipeline): shapes that need two parts of ngo to cooperate"""
A = {"in": "auto", "out": "auto", "V": "show"}
T = [
 ("shownot", "{ b(X) } :- d(X).\nbad(X) :- b(X), e(X).\nkeep(X) :- b(X).\n#show t(X) : keep(X), not bad(X).", A),
 ("showcond", "{ q(X,Y) } :- pq(X,Y).\nsel(X) :- q(X,_).\n#show sel/1.\n#show good : q(X,_) : dom(X).", A),
 ("showterm", "{ b(X) } :- d(X).\nu(X) :- b(X), e(X).\n#show f(X) : u(X).\n#show g(X,Y) : b(X), b(Y), X < Y.", A),
 ("showsig", "{ b(X,Y) } :- d(X,Y).\nu(X,Y) :- b(X,Y), e(X).\nw(X) :- u(X,_).\n#show [[w/1|u/2|b/2]].", A),
 ("disjcond", "a(X) : x(X,_) ; b :- c.\n#show a/1. #show b/0.", A),
 ("reach", "reach(X) :- start(X).\nreach(Y) :- reach(X), edge(X,Y).\n#show reach/1.", A),
 ("selfdef", "wall(X,Y) :- wall(Y,X).\nok :- wall(X,Y), X < Y.\n#show ok/0.", A),
 ("weakcond", "{ p(A,W) } :- pp(A,W).\nload(A,S) :- g(A), S = #sum { W : p(A,W) }.\nheavy(A) :- load(A,S), S > 2.\n:~ g(A), ok : load(A,S), S < 2. [1@1,A]", {}),
 ("weakchain", "{ e(Y) } :- pe(Y).\n:~ e(S), d(D), b(B), S = D < B. [1@1,S]", {}),
 ("anon_math", "a :- p(X), q(Z), Y = X+1, W = Z+2.", {}),
 ("sym_agg", "{ p(X) } :- d(X). { r(X,W) } :- pr(X,W).\n:- p(X), p(Y), X != Y, #sum { W : r(X,W) } > 1.", {}),
 ("sym_proj", "{ match(M,W) } :- pm(M,W).\n:- 2 <= #sum { 1,W : match(M1,W), match(M2,W), M1 != M2 }.\nh(A,D) :- q(A,B), r(A,D), s(B,E), t(E).", {}),
 ("sym_proj2", "{ match(M,W) : cand(M,W) }.\nh(W) :- w(W), 1 <= #count { W : match(M1,W), match(M2,W), M1 != M2 }.\np(A,D) :- q(A,B,C), r(A,D), t(E), not s(B,E).", {"universe_pos": {"q/3": [["0", "1"], ["0", "1"], ["0"]]}}),
 ("sym_proj3", "{ match(M,W) : cand(M,W) }.\nh(W) :- w(W), 1 <= #count { W : match(M1,W), match(M2,W), M1 != M2 }.\ng(W) :- w(W), 1 <= #count { W : match(W,M1), match(W,M2), M1 != M2 }.\np(A,D) :- q(A,B), r(A,D), t(E), not s(B,E).", {}),
 ("sym_math", "{ p(X,A) } :- dp(X,A).\na(X) :- p(X,A), p(X,B), A < B, q(X,Y), Z = Y+1, Z > Y.", {}),
 ("dup_proj", "p(X) :- a(X), b(X,Y), c(Y).\nq(Z) :- a(Z), b(Z,W), e(W).\nh(A,D) :- q(A), r(A,D), s(B,E), t(E).", {}),
 ("clean_unused", "b(X,Y) :- d(X), d(Y), X+Y < 3.\na(X,Y) :- b(X,Y), d(X), d(Y).\n:- a(X,_), f(X).", {}),
 ("unused_inline", "{ p(A,X,W) } :- pp(A,X,W).\nhelper(A,S) :- g(A), S = #sum { W,X : p(A,X,W) }.\ncopy(A,S) :- helper(A,S).\nfoo(T) :- T = #sum { S,A : copy(A,S) }.", {"universe_pos": {"pp/3": [["0", "1"], ["0", "1"], ["1", "2"]]}}),
 ("minmax_sum", "{ s(P,V) : ps(P,V) } 1 :- g(P).\nr(X) :- X = #max { V : s(P,V) }.\nt(T) :- T = #sum { V,P : s(P,V) }.\n:- r(X), t(T), X + 1 < T.", {}),
 ("math_inline", "{ p(A,W) } :- pp(A,W).\nh(A,S) :- g(A), S = #sum { W : p(A,W) }.\nfoo(A) :- h(A,S), T = #count { W : p(A,W) }, S - T > 0.", {}),
 ("proj_math", "p(A,D) :- q(A,B), r(A,D), s(B,E), X = B + E, X < 3.", {}),
 ("inputrule", "c(X) :- d(X).\nb(X) :- c(X), e(X).\na(X) :- b(X), c(X).", {"in": [["c", 1], ["d", 1], ["e", 1]]}),
 ("const", "#const n = 2.\n{ p(X) } :- d(X), X < n.\n:- p(X), p(Y), X != Y.", {}),
 ("const2", "#const n = 2.\np(X,X+n) :- d(X).\nq(Y) :- p(_,Y), Y < 2*n.", {}),
]
CAP = 16
