"""G family for C02 (costs under the whole pipeline): objectives in the shapes the passes rewrite"""
H1 = "{ s(D,L) : ps(D,L) } 1 :- day(D).\n"
S1 = "{ s(P,V) } :- ps(P,V).\ns(P,0) :- g(P).\n"
T = [
 ("prio", H1 + "#minimize { L@[[L|1|D]],D : s(D,L) }.", {}),
 ("prio2", H1 + ":~ s(D,L). [L@[[L|D|2]],D]\n:~ s(D,L), w(D). [[[1|L]]@1,D,x]", {}),
 ("sign", H1 + "#[[minimize|maximize]] { [[L|-L]]@1,D : s(D,L) }.", {}),
 ("unify", H1 + "#minimize { L,D : s(D,L) }.\n#minimize { K,[[E|E,y|1]] : o(E,K) }.", {}),
 ("symweak", "{ slot(J,M,T) } :- pslot(J,M,T).\n:~ slot(J1,M,T1), slot(J2,M,T2), J1 != J2, T1 != T2. [1@1,[[J1,M|M|M,T1]]]", {"universe_pos": {"pslot/3": [["0", "1"], ["0", "1"], ["0", "1"]]}}),
 ("symweak2", "{ slot(J,M) } :- pslot(J,M).\n:~ slot(J1,M), slot(J2,M), J1 [[!=|<]] J2. [[[1|J1|M]]@1,[[M|M,J1|J2]]]", {}),
 ("symweak3", "{ slot(J,M) } :- pslot(J,M).\n:~ slot(J1,M), slot(J2,M), J1 != J2. [1@[[1|J1]],M]", {}),
 ("minmaxw", S1 + "r(P,X) :- g(P), X = #[[min|max]] { V : s(P,V) }.\n:~ r(P,X). [X@[[1|P]],[[P|f(P)|f(P/2)|P,x]]]", {}),
 ("minmaxw2", S1 + "r(P,X) :- g(P), X = #[[min|max]] { V : s(P,V) }.\n:~ r(P,X), X > 1. [X@1,P]", {}),
 ("minmaxw3", S1 + "r(P,X) :- g(P), X = #[[min|max]] { V : s(P,V) }.\n:~ r(P,X). [X@1,P]\n:~ t(P,V). [V@1,P]", {}),
 ("aggw", "{ p(A,W) } :- pp(A,W).\n:~ g(A), S = #[[sum|count]] { W : p(A,W) }. [S@1[[,A|]]]", {}),
 ("aggw2", "{ p(A,W) } :- pp(A,W).\n:~ g(A), S = #sum { W : p(A,W) }. [S@1,A]\n:~ q(A,V). [V@1,A]", {}),
 ("aggw3", "{ p(A,W) } :- pp(A,W).\nh(A,S) :- g(A), S = #sum { W : p(A,W) }.\n:~ h(A,S). [S@[[1|A]],A]", {}),
 ("aggw4", "{ p(A,W) } :- pp(A,W).\n:~ S = #sum { W,A : p(A,W) }. [S@1]\n:~ T = #sum { W,A : p(A,W), g(A) }. [T@1]", {}),
 ("arithw", "{ e(Y) } :- pe(Y).\n:~ e(Y), f(Y+1). [Y*2@[[1|Y+1]],Y-1]", {}),
 ("arithw2", "{ e(Y) } :- pe(Y).\n:~ item(X), pick(X+1), e(X). [X*2@1,X]", {}),
 ("arithw4", "{ sel(X) } :- d(X).\n#minimize { C*2@1,X : sel(X), cost(X,C), slot(X+1) }.", {}),
 ("arithw3", "{ e(Y) } :- pe(Y).\n#minimize { X+1,Y : p(X+2,Y), e(Y) }.", {}),
 ("condw", "{ p(A,W) } :- pp(A,W).\nload(A,S) :- g(A), S = #sum { W : p(A,W) }.\nheavy(A) :- load(A,S), S > 2.\n:~ g(A), ok : load(A,S), S < 2. [1@1,A]", {}),
 ("condweak", "{ a(X) : d(X) }.\nload(P,S) :- person(P), S = #sum { W,X : a(X), w(P,X,W) }.\ntotal(T) :- T = #sum { S,P : load(P,S) }.\n:~ person(P), ok(P) : load(P,S), S < 3. [1@2,P]", {"universe_pos": {"w/3": [["0", "1"], ["0", "1"], ["1", "2"]]}}),
 ("chainw", "{ e(Y) } :- pe(Y).\n:~ e(S), d(D), b(B), S = D < B. [1@1,S]", {}),
 ("chainw2", "{ e(Y) } :- pe(Y).\n:~ e(X), 0 < X < 2. [1@1,X]", {}),
 ("dupw", "{ e(Y) } :- pe(Y).\n:~ e(X), f(X), g(X,Y). [Y@1,X]\n:~ e(X), f(X), h(X). [1@2,X]", {}),
 ("unusedw", "{ b(X) } :- d(X).\nu(X,Y) :- b(X), e(X,Y).\nv(X) :- u(X,_).\n:~ v(X). [1@1,X]\n:~ u(_,Y). [Y@2]", {}),
 ("cleanw", "b(X) :- c(X), d(X).\n{ bb(X) } :- b(X).\n:~ bb(X), b(X), c(X). [1@1,X]\n:~ bb(X), not c(X). [5@1,X]", {}),
]
CAP = 16
