import json, sys, glob
prop=sys.argv[1]
seen=set()
for d in sorted(glob.glob(f"/verif/evidence/replay/{prop}/*")):
    cfg=json.load(open(d+"/config.json")); src=open(d+"/source.lp").read().strip()
    res=[l for l in open(d+"/result.lp").read().strip().split("\n") if not l.startswith(("__dom","__min","__max_0_0","__next","__chain","#program"))]
    print("="*80); print(cfg["enabled"], cfg["mode"], "OUT", cfg["out"], "|", cfg["reason"][:60]); print(src); print("  =>"); print("\n".join(res)[:700])
    print("inst:", open(d+"/instance.lp").read().strip()[:200]); print(json.dumps(cfg["replay"])[:300])
