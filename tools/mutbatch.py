"""run mutest over a set of agent outputs and keep confirmed ones under /verif/seeded/<id>/
usage: mutbatch.py <PROP> <agent out dir> [extra props to check...]"""
import json, os, shutil, subprocess, sys
prop, out = sys.argv[1], sys.argv[2]
extra = sys.argv[3:]
table = []
for m in sorted(os.listdir(out)):
    d = os.path.join(out, m)
    if not os.path.exists(os.path.join(d, "patch.diff")):
        continue
    tag = os.environ.get("SEED_TAG", "")
    sid = f"{prop}-{tag}{m}"
    dest = f"/verif/seeded/{sid}"
    skip = ["--skip-confirm"] if os.path.exists(dest + "/meta.json") and json.load(open(dest + "/meta.json")).get("confirmed") else []
    r = subprocess.run(["/venv/bin/python", "/verif/tools/mutest.py", d, prop] + extra + skip, capture_output=True, text=True)
    try:
        res = json.loads(r.stdout)
    except Exception:
        print("FAILED", d, r.stdout[-500:], r.stderr[-500:]); continue
    if skip:
        res["confirmed"] = True
    if not res.get("confirmed"):
        print("NOT CONFIRMED", sid, {k: res.get(k) for k in ("applies", "tests", "demo_with", "demo_without")})
        continue
    os.makedirs(dest, exist_ok=True)
    for f in ("patch.diff", "demo.py"):
        shutil.copy(os.path.join(d, f), dest)
    meta = json.load(open(os.path.join(d, "meta.json"))) if os.path.exists(os.path.join(d, "meta.json")) else {}
    old = json.load(open(dest + "/meta.json")) if os.path.exists(dest + "/meta.json") else {}
    det = old.get("detection", {})
    for p in [prop] + extra:
        det[p] = {"quick_exit": res[p]["exit"], "violations": res[p]["violations"], "seconds": res[p]["s"]}
    meta.update({"breaks_property": prop, "confirmed": True,
                 "confirmation": {"tests_with_patch": res.get("tests", old.get("confirmation", {}).get("tests_with_patch")), "demo_exit_with_patch": 1, "demo_exit_without_patch": 0,
                                  "how": "tools/mutest.py: scratch worktree of /repo HEAD, git apply, full pytest, demo.py with and without the patch; then patch applied to /repo, ./check <prop> quick, git checkout -- ."},
                 "detection": det})
    json.dump(meta, open(dest + "/meta.json", "w"), indent=1)
    table.append((sid, {p: (res[p]["exit"], res[p]["violations"]) for p in [prop] + extra}))
    print(sid, table[-1][1], flush=True)
