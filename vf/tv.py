"""Translation validation of one (source, result) pair for ALL instances over a bounded universe.

check_pair grounds both programs with the instance left open, encodes their stable models, lets the SMT
solver decide the two NoCounterpart queries (and injectivity where asked), and replays every sat answer
with clingo before calling it a violation."""
from __future__ import annotations

import time

from . import replay, smt, solve
from .gp import GP
from .ground import GroundError, ground, n_instance_atoms

MAX_RULES = 60000
MAX_SCOPE_ROUNDS = 40


def shrink_universe(universe):
    """drop the last value of every position that has more than two values; None if nothing to drop"""
    changed = False
    new = {"default": list(universe["default"]), "pos": {}}
    if len(new["default"]) > 2:
        new["default"] = new["default"][:-1]
        changed = True
    for k, cols in universe.get("pos", {}).items():
        nc = []
        for c in cols:
            if len(c) > 2:
                nc.append(list(c[:-1]))
                changed = True
            else:
                nc.append(list(c))
        new["pos"][k] = nc
    return new if changed else None


def instance_of(model, X, xa, inputs):
    """facts for the true atoms of the input predicates in a solver model"""
    ins = set((n, int(a)) for n, a in inputs)
    name2atom = {v: k for k, v in xa.items()}
    true_syms = []
    for nm, val in model.items():
        if val and nm in name2atom:
            a = name2atom[nm]
            s = X.sym.get(a)
            if s is not None:
                true_syms.append(s)
    sig_of = {X.sym[a]: X.sig[a] for a in X.sig if a in X.sym}
    inst = [s for s in true_syms if sig_of.get(s) in ins]
    return sorted(inst), sorted(true_syms)


def facts(inst):
    return " ".join(s + "." for s in inst)


def _scope_core(src, inst, consts, candidates=()):
    """out-of-scope cube around the instance: a greedy subset-minimal set of instance atoms that still triggers an
    out-of-scope diagnostic, plus the atoms outside the instance whose addition alone repairs it"""
    core = list(inst)

    def bad(atoms):
        r = replay.enumerate_models(text=src, instance=facts(atoms), vis_preds=set(), consts=consts, cap=1)
        return bool(r.scope) and not r.error

    for a in list(core):
        trial = [x for x in core if x != a]
        if bad(trial):
            core = trial
    repair = []
    if core:
        for a in candidates:
            if a not in inst and len(repair) < 200 and not bad(core + [a]):
                repair.append(a)
    return (frozenset(core), frozenset(repair))


def _instance_candidates(X, inputs):
    ins = set((n, int(a)) for n, a in inputs)
    return sorted(s for a, s in X.sym.items() if X.sig.get(a) in ins)


def check_pair(src, dst, inputs, vis_preds, universe, consts=(), costs=True, one_to_one=False, show_terms=False,
               timeout=20, dst_asts=None, vplus=None, extra="", open_preds=None, want_reach=True, kf_classes=()):
    """decide one pair.  returns a dict:
      status : held | violation | inconclusive | skip | harness_error
      queries: [{q, path, verdict, s}], bounds, sizes, counterexample (for violation)"""
    t0 = time.time()
    res = {"status": None, "queries": [], "universe": universe, "solver_s": 0.0}
    opens = list(open_preds) if open_preds is not None else list(inputs)
    res["instance_atoms"] = n_instance_atoms(opens, universe)
    try:
        ga = ground(text=src, inputs=opens, universe=universe, consts=consts, extra=extra)
    except GroundError as e:
        res.update(status="skip", reason="source does not ground: " + str(e)[:200])
        return res
    if ga.theory or ga.externals:
        res.update(status="skip", reason="theory atoms / externals are outside the encoding")
        return res
    if len(ga.rules) > MAX_RULES:
        res.update(status="inconclusive", reason=f"open grounding of the source has {len(ga.rules)} rules", too_big=True)
        return res
    try:
        gb = ground(text=dst if dst_asts is None else None, asts=dst_asts, inputs=opens, universe=universe, consts=consts, extra=extra)
    except GroundError as e:
        cmpres = replay.compare(src, dst, extra, vis_preds, show_terms, costs, one_to_one, consts, dst_asts)
        if cmpres["status"] == "differ":
            res.update(status="violation", reason="result does not ground", counterexample={"instance": "", "replay": cmpres, "ground_error": str(e)[:300]})
        else:
            res.update(status="inconclusive", reason="result does not ground with the open instance: " + str(e)[:200])
        return res
    if len(gb.rules) > MAX_RULES:
        res.update(status="inconclusive", reason=f"open grounding of the result has {len(gb.rules)} rules", too_big=True)
        return res
    if gb.theory or gb.externals:
        res.update(status="skip", reason="theory atoms / externals are outside the encoding")
        return res
    res["scope_msgs_open"] = len(ga.scope_msgs())
    res["t_ground"] = round(time.time() - t0, 3)

    attempts = []
    if vplus is not None and set(vplus) != set(vis_preds):
        attempts.append(("V+", set(vplus)))
    attempts.append(("V", set(vis_preds) if vis_preds is not None else None))
    blocked = []
    final = None
    for vname, V in attempts:
        A = GP(ga, V, show_terms).slice()
        B = GP(gb, V, show_terms).slice()
        res["sizes"] = {"A": A.stats(), "B": B.stats()}
        res["non_hcf"] = [n for n, g in (("A", A), ("B", B)) if not g.head_cycle_free()]
        if want_reach and "reach" not in res:
            enc, xa = smt.q_reach(A, blocked)
            v, _, dt = solve.run(enc.text(), timeout)
            res["solver_s"] += dt
            res["reach"] = v
            res["queries"].append({"q": "reach(A)", "path": "exists", "verdict": v, "s": round(dt, 3)})
        outcome = _decide(res, src, dst, dst_asts, A, B, opens, V, vis_preds, vname, costs, one_to_one, show_terms, timeout,
                          consts, blocked, bool(ga.scope_msgs()), extra, kf_classes)
        if outcome[0] == "held":
            final = outcome
            break
        if outcome[0] == "sat_on_vplus":
            continue
        final = outcome
        break
    res["status"], res["reason"] = final[0], final[1]
    if len(final) > 2:
        res["counterexample"] = final[2]
    res["blocked_out_of_scope_cores"] = [{"core": sorted(c[0]), "unless": sorted(c[1])[:12]} for c in blocked]
    res["wall_s"] = round(time.time() - t0, 3)
    return res


def _decide(res, src, dst, dst_asts, A, B, inputs, V, vis_exact, vname, costs, one_to_one, show_terms, timeout, consts,
            blocked, has_scope_msgs, extra, kf_classes=()):
    import re as _re

    queries = [("A->B", A, B), ("B->A", B, A)]
    inconclusive = None
    known = res.setdefault("known_findings", [])
    from . import astutil as _au

    try:
        dst_sigs = _au.program_sigs(_au.parse(dst))
    except RuntimeError:
        dst_sigs = set()

    def sigs_of(e):
        m = e["match"]
        if m.get("kind", "nonempty") == "dom_superset":
            return [{"kind": "dom_superset", "prefix": m["prefix"]}]
        if m.get("kind") == "infsup_guard_nonempty":
            try:
                return [{"kind": "nonempty", "sigs": sorted(_au.infsup_guard_sigs(_au.parse(dst)))}]
            except RuntimeError:
                return []
        if m.get("kind") == "dom_negated_false":
            try:
                return [{"kind": "all_false", "sigs": sorted(_au.antimonotone_domain_sigs(_au.parse(dst), m["prefix"], _au.parse(src)))}]
            except RuntimeError:
                return []
        rs = [_re.compile(r) for r in m["nonempty_result_preds"]]
        return [{"kind": "nonempty", "sigs": [sg for sg in sorted(dst_sigs) if any(r.search(sg[0]) for r in rs)]}]

    regexes = [sg for e in kf_classes if e["id"] in known for sg in sigs_of(e)]
    for qname, X, Y in queries:
        rounds = 0
        while True:
            rounds += 1
            ne = (("X" if X is B else "Y"), regexes) if regexes else None
            enc, xa, path, reason = smt.q_nocounterpart(X, Y, costs=costs, blocked=blocked, nonempty=ne)
            if enc is None:
                res["queries"].append({"q": qname, "V": vname, "path": path, "verdict": "not_encodable", "why": reason})
                inconclusive = reason
                break
            get = [xa[a] for a in sorted(X.atoms) if a in X.sym]
            text = enc.text(get)
            v, model, dt = solve.run(text, timeout)
            res["solver_s"] += dt
            res["queries"].append({"q": qname, "V": vname, "path": path, "verdict": v, "s": round(dt, 3), "kb": len(text) // 1024,
                                   **({"why_slow": reason} if path == "slow" else {})})
            if v == "unsat":
                break
            if v != "sat":
                inconclusive = f"{qname} {path}: {v}"
                break
            inst, trues = instance_of(model, X, xa, inputs)
            if vname == "V+":
                # a difference on a non-output predicate is not a violation; fall back to the exact V
                sc = replay.enumerate_models(text=src, instance=facts(inst) + " " + extra, vis_preds=set(), consts=consts, cap=1)
                if sc.scope and not sc.error and rounds <= MAX_SCOPE_ROUNDS:
                    core = _scope_core(src, inst, consts, _instance_candidates(X, inputs))
                    if not core[0]:
                        return ("skip", "every instance is out of scope (diagnostic without any instance atom)")
                    blocked.append(core)
                    continue
                # is the V+ difference already a difference on the exact V?  (clingo decides; cheap)
                sig_of = {X.sym[a]: X.sig[a] for a in X.sig if a in X.sym}
                fix_exact = [t for t in trues if sig_of.get(t) in vis_exact]
                cmp_exact = replay.compare(src, dst, facts(inst) + " " + extra, vis_exact, show_terms, costs, one_to_one, consts, dst_asts, fix=fix_exact)
                if cmp_exact["status"] == "differ":
                    hit = None
                    for e in kf_classes:
                        if e["id"] not in known and class_signature_holds(e, dst, facts(inst) + " " + extra, consts, src):
                            hit = e
                            break
                    if hit is not None:
                        known.append(hit["id"])
                        res.setdefault("known_examples", []).append({"finding": hit["id"], "instance": facts(inst), "replay": cmp_exact})
                        regexes += sigs_of(hit)
                        continue
                    return ("violation", f"{qname} sat (V+) and clingo confirms on V", {"instance": facts(inst), "fix": fix_exact, "replay": cmp_exact, "query": qname})
                return ("sat_on_vplus", "")
            sig_of = {X.sym[a]: X.sig[a] for a in X.sig if a in X.sym}
            fix = [t for t in trues if V is None or sig_of.get(t) in V]
            cmpres = replay.compare(src, dst, facts(inst) + " " + extra, V, show_terms, costs, one_to_one, consts, dst_asts,
                                    fix=fix if V is not None else None)
            if cmpres["status"] == "differ":
                hit = None
                for e in kf_classes:
                    if e["id"] not in known and class_signature_holds(e, dst, facts(inst) + " " + extra, consts, src):
                        hit = e
                        break
                if hit is not None:
                    known.append(hit["id"])
                    res.setdefault("known_examples", []).append({"finding": hit["id"], "instance": facts(inst), "replay": cmpres})
                    regexes += sigs_of(hit)
                    continue
                return ("violation", f"{qname} sat and clingo confirms", {"instance": facts(inst), "fix": fix, "replay": cmpres, "query": qname})
            if cmpres["status"] == "out_of_scope":
                if rounds > MAX_SCOPE_ROUNDS:
                    inconclusive = "too many out-of-scope cores"
                    break
                core = _scope_core(src, inst, consts, _instance_candidates(X, inputs))
                if not core[0]:
                    return ("skip", "every instance is out of scope (diagnostic without any instance atom)")
                blocked.append(core)
                continue
            if cmpres["status"] == "capped":
                inconclusive = "replay capped: " + str(cmpres["detail"])
                break
            if cmpres["status"] == "src_error":
                inconclusive = "replay: source error " + str(cmpres["detail"])[:100]
                break
            return ("harness_error", f"{qname}: solver says sat but clingo sees no difference", {"instance": facts(inst), "replay": cmpres, "true_atoms": trues[:60]})
        if inconclusive:
            return ("inconclusive", inconclusive)
    if one_to_one:
        ok, why = B.hidden_determined()
        if ok:
            res["queries"].append({"q": "injective(B)", "V": vname, "path": "lemma", "verdict": "unsat"})
        else:
            enc, x1 = smt.q_two_models(B, None, blocked)
            get = [x1[a] for a in sorted(B.atoms) if a in B.sym]
            v, model, dt = solve.run(enc.text(get), timeout)
            res["solver_s"] += dt
            res["queries"].append({"q": "injective(B)", "V": vname, "path": "two-models", "verdict": v, "s": round(dt, 3), "why": why})
            if v == "sat":
                inst, trues = instance_of(model, B, x1, inputs)
                cmpres = replay.compare(src, dst, facts(inst) + " " + extra, V, show_terms, costs, True, consts, dst_asts)
                if cmpres["status"] == "differ":
                    return ("violation", "two answer sets of the result coincide on the source vocabulary", {"instance": facts(inst), "replay": cmpres, "query": "injective"})
                if cmpres["status"] == "same":
                    return ("harness_error", "injectivity sat but clingo counts agree", {"instance": facts(inst), "replay": cmpres})
                return ("inconclusive", "injectivity replay: " + cmpres["status"])
            if v != "unsat":
                return ("inconclusive", f"injectivity: {v}")
    return ("held", "")


def class_signature_holds(entry, dst, instance, consts, src=None):
    """does the replayed counterexample belong to the instance class of a class-identified known finding?
    nonempty    : some predicate of the result whose name matches a regex has no ground atom for this instance
    dom_superset: in some answer set of result+instance an atom q(t) is true while <prefix>q(t) is false"""
    import re as _re

    import clingo

    from . import astutil

    m = entry["match"]
    try:
        all_sigs = astutil.program_sigs(astutil.parse(dst))
    except RuntimeError:
        return False
    args = ["0"]
    for c in consts:
        args += ["-c", c]
    extra = ""
    if m.get("kind") == "infsup_guard_nonempty":
        sigs = astutil.infsup_guard_sigs(astutil.parse(dst))
        if not sigs:
            return False
        ctl = clingo.Control(args, logger=lambda c, m_: None)
        try:
            ctl.add("base", [], dst + "\n" + instance)
            ctl.ground([("base", [])])
        except RuntimeError:
            return False
        return any(not any(True for _ in ctl.symbolic_atoms.by_signature(name, ar)) for name, ar in sigs)
    if m.get("kind") == "dom_negated_false":
        sigs = astutil.antimonotone_domain_sigs(astutil.parse(dst), m["prefix"], astutil.parse(src) if src else None)
        if not sigs:
            return False
        ctl = clingo.Control(args, logger=lambda c, m_: None)
        try:
            ctl.add("base", [], dst + "\n" + instance)
            ctl.ground([("base", [])])
        except RuntimeError:
            return False
        return any(True for name, ar in sigs for _ in ctl.symbolic_atoms.by_signature(name, ar))
    if m.get("kind", "nonempty") == "dom_superset":
        pre = m["prefix"]
        pairs = [(n, a) for (n, a) in all_sigs if not n.startswith(pre) and (pre + n, a) in all_sigs]
        if not pairs:
            return False
        for n, a in pairs:
            vs = ",".join(f"X{i}" for i in range(a))
            extra += f"__vf_bad :- {n}({vs}), not {pre}{n}({vs}).\n" if a else f"__vf_bad :- {n}, not {pre}{n}.\n"
        extra += ":- not __vf_bad.\n"
        ctl = clingo.Control(args + ["--opt-mode=ignore"], logger=lambda c, m_: None)
        try:
            ctl.add("base", [], dst + "\n" + instance + "\n" + extra)
            ctl.ground([("base", [])])
        except RuntimeError:
            return False
        return bool(ctl.solve().satisfiable)
    regs = [_re.compile(r) for r in m["nonempty_result_preds"]]
    sigs = {s for s in all_sigs if any(r.search(s[0]) for r in regs)}
    if not sigs:
        return False
    ctl = clingo.Control(args, logger=lambda c, m_: None)
    try:
        ctl.add("base", [], dst + "\n" + instance)
        ctl.ground([("base", [])])
    except RuntimeError:
        return False
    for name, ar in sigs:
        if not any(True for _ in ctl.symbolic_atoms.by_signature(name, ar)):
            return True
    return False
