"""./check replay <dir>: re-run a stored counterexample against the REAL ngo from /repo with plain clingo."""
from __future__ import annotations

import json
import os

from . import ngorun, replay


def main(path):
    cfg = json.load(open(os.path.join(path, "config.json")))
    if cfg.get("kind") in ("c04",):
        cfg["kind"] = "e1"
    if cfg.get("kind") not in (None, "e1"):
        mod = __import__("vf.p_" + {"c07": "C07", "c07alloc": "C07", "c18": "C18", "c19": "C19", "c20": "C20"}.get(cfg["kind"], cfg["property"]), fromlist=["replay"])
        return mod.replay(path, cfg)
    src = open(os.path.join(path, "source.lp")).read()
    if cfg.get("V") is None:
        # a violation that has no instance (result rejected by clingo, statement not passed through, ...): run the
        # task again on the current tree
        from . import e1

        r = e1.run_task({"id": "replay", "text": src, "in": cfg.get("in"), "out": cfg.get("out"), "enabled": cfg["enabled"], "V": cfg.get("mode", "voc"),
                         "tier": "quick", "c04": cfg["property"] == "C04", "costs": cfg.get("costs", True), "consts": cfg.get("consts", [])})
        print("result of the current ngo:\n" + str(r.get("result")))
        print(json.dumps({k: r.get(k) for k in ("status", "reason", "counterexample", "syntactic", "c04_problems")}, indent=1, default=str)[:3000])
        if r["status"] == "violation":
            print(f"VIOLATION property={cfg['property']} replay={path}")
            return 1
        print("no violation with the current tree")
        return 0
    inst = open(os.path.join(path, "instance.lp")).read()
    try:
        r = ngorun.run_ngo(src, [tuple(x) for x in cfg["in"]], [tuple(x) for x in cfg["out"]], cfg["enabled"])
        dst = "\n".join(r["stms"])
    except Exception as e:  # noqa
        print(f"ngo raised {type(e).__name__}: {e}")
        return 1
    V = set(tuple(x) for x in cfg["V"])
    res = replay.compare(src, dst, inst, V, cfg.get("mode") == "show", cfg.get("costs", True), cfg.get("one_to_one", False), tuple(cfg.get("consts", [])), fix=cfg.get("fix"))
    print("result of the current ngo:\n" + dst)
    print(json.dumps(res, indent=1, default=str))
    if res["status"] == "differ":
        print(f"VIOLATION property={cfg['property']} replay={path}")
        return 1
    print("no difference on this instance with the current tree")
    return 0
