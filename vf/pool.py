"""A small process pool with HARD per-task timeouts (a stuck grounder / ngo fixpoint loop is killed)."""
from __future__ import annotations

import multiprocessing as mp
import os
import time
import traceback
from multiprocessing.connection import wait


def _worker(conn, fn_path):
    import importlib

    mod, name = fn_path.rsplit(":", 1)
    fn = getattr(importlib.import_module(mod), name)
    while True:
        try:
            msg = conn.recv()
        except EOFError:
            return
        if msg is None:
            return
        idx, task = msg
        try:
            res = fn(task)
        except Exception as e:  # noqa  (BaseException of tools is never caught here)
            res = {"status": "task_error", "reason": f"{type(e).__name__}: {e}", "trace": traceback.format_exc()[-1500:]}
        try:
            conn.send((idx, res))
        except Exception as e:  # noqa
            conn.send((idx, {"status": "task_error", "reason": f"unpicklable result: {e}"}))


class _W:
    def __init__(self, ctx, fn_path):
        self.parent, child = ctx.Pipe()
        self.proc = ctx.Process(target=_worker, args=(child, fn_path), daemon=True)
        self.proc.start()
        child.close()
        self.busy = None  # (idx, deadline)

    def kill(self):
        try:
            self.proc.kill()
            self.proc.join(2)
        except Exception:  # noqa
            pass
        try:
            self.parent.close()
        except Exception:  # noqa
            pass


def run_tasks(fn_path, tasks, workers=None, task_timeout=120, progress=None):
    """fn_path 'module:function'; returns list of results in task order. A task that exceeds
    task_timeout seconds gets {'status': 'task_timeout'}."""
    workers = workers or max(1, min(len(tasks), (os.cpu_count() or 2) - 1))
    ctx = mp.get_context("fork")
    results = [None] * len(tasks)
    pending = list(range(len(tasks)))[::-1]
    ws = [_W(ctx, fn_path) for _ in range(workers)]
    done = 0
    try:
        while done < len(tasks):
            for i, w in enumerate(ws):
                if w.busy is None and pending:
                    idx = pending.pop()
                    w.parent.send((idx, tasks[idx]))
                    w.busy = (idx, time.time() + tasks[idx].get("task_timeout", task_timeout))
            busy = [w for w in ws if w.busy is not None]
            ready = wait([w.parent for w in busy], timeout=0.5)
            now = time.time()
            for i, w in enumerate(ws):
                if w.busy is None:
                    continue
                if w.parent in ready:
                    try:
                        idx, res = w.parent.recv()
                    except (EOFError, OSError):
                        idx, res = w.busy[0], {"status": "task_error", "reason": "worker died"}
                        w.kill()
                        ws[i] = _W(ctx, fn_path)
                        w = ws[i]
                    results[idx] = res
                    w.busy = None
                    done += 1
                    if progress:
                        progress(done, len(tasks), res)
                elif now > w.busy[1]:
                    idx = w.busy[0]
                    results[idx] = {"status": "task_timeout", "reason": f"task exceeded {tasks[idx].get('task_timeout', task_timeout)} s and was killed"}
                    w.kill()
                    ws[i] = _W(ctx, fn_path)
                    done += 1
                    if progress:
                        progress(done, len(tasks), results[idx])
    finally:
        for w in ws:
            try:
                w.parent.send(None)
            except Exception:  # noqa
                pass
            w.kill()
    return results
