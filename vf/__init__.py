"""vf -- solver-based checking of potassco/ngo (see /verif/DESIGN.md)."""
