"""Entry point:  python -m vf.run <property> <quick|thorough>   |   python -m vf.run replay <dir>"""
from __future__ import annotations

import json
import os
import shutil
import sys
import tempfile
import time

ROOT = os.path.dirname(os.path.dirname(os.path.abspath(__file__)))


def main(argv):
    if len(argv) < 2:
        print("usage: check <property> <quick|thorough> | check replay <dir>")
        return 2
    if argv[1] == "replay":
        from . import replaycmd

        return replaycmd.main(argv[2])
    prop = argv[1]
    tier = os.environ.get("VERIF_TIER") or (argv[2] if len(argv) > 2 else "quick")
    if tier not in ("quick", "thorough"):
        tier = "quick"
    seed = int(os.environ.get("VERIF_SEED", "0") or 0)
    tmp = tempfile.mkdtemp(prefix="vf-run-")
    os.environ["VF_TMP"] = tmp
    try:
        from . import props

        return props.run(prop, tier, seed)
    finally:
        shutil.rmtree(tmp, ignore_errors=True)


if __name__ == "__main__":
    sys.exit(main(sys.argv))
