"""Concrete replay with clingo: enumerate the answer sets of source+instance and result+instance and compare
them in the projection of the property. Only a difference seen here is ever reported as a violation."""
from __future__ import annotations

from collections import Counter

import clingo
from clingo.ast import ProgramBuilder

from .ground import SCOPE_MARKERS, _Obs
from .gp import SHOW_PREFIX

CAP = 50000


class ReplayResult:
    def __init__(self):
        self.models = Counter()  # (frozenset(visible symbols), cost tuple) -> count
        self.error = None
        self.scope = []  # out-of-scope diagnostics
        self.capped = False
        self.n = 0


def enumerate_models(text=None, asts=None, instance="", vis_preds=None, show_terms=False, consts=(), cap=CAP):
    res = ReplayResult()
    msgs = []
    args = ["0", "--opt-mode=ignore", "--warn=all"]
    for c in consts:
        args += ["-c", c]
    ctl = clingo.Control(args, logger=lambda c, m: msgs.append(m), message_limit=1000)
    obs = _Obs()
    ctl.register_observer(obs, replace=False)
    try:
        if asts is not None:
            with ProgramBuilder(ctl) as bld:
                for s in asts:
                    bld.add(s)
            ctl.add("base", [], instance)
        else:
            ctl.add("base", [], text + "\n" + instance)
        ctl.ground([("base", [])])
    except RuntimeError as e:
        res.error = f"{e}: " + " ; ".join(msgs[:3])
        return res
    res.scope = [m for m in msgs if any(k in m for k in SCOPE_MARKERS)]
    prios = sorted({p for p, _ in obs.minimize_}, reverse=True)

    def on_model(m):
        proj = set()
        for s in m.symbols(atoms=True):
            if vis_preds is None or (s.name, len(s.arguments)) in vis_preds:
                proj.add(str(s))
        if show_terms:
            for s in m.symbols(terms=True):
                proj.add(SHOW_PREFIX + str(s))
        cost = []
        for p in prios:
            c = 0
            for pp, lits in obs.minimize_:
                if pp == p:
                    for l, w in lits:
                        if m.is_true(l) if l > 0 else not m.is_true(-l):
                            c += w
            if c != 0:
                cost.append((p, c))
        res.models[(frozenset(proj), tuple(cost))] += 1
        res.n += 1
        if res.n >= cap:
            res.capped = True
            return False
        return True

    ctl.solve(on_model=on_model)
    return res


def fix_constraints(vis_preds, true_atoms):
    """ASP text that pins the visible part of an answer set: the atoms of the visible signatures are
    exactly `true_atoms` (used for targeted replay of one claimed answer set)"""
    out = []
    by = {}
    for sym in true_atoms:
        if sym.startswith(SHOW_PREFIX):
            continue
        s = clingo.parse_term(sym)
        by.setdefault((s.name, len(s.arguments)), []).append(s)
    for k, (name, ar) in enumerate(sorted(vis_preds)):
        aux = f"__vf_fix{k}"
        for s in by.get((name, ar), []):
            out.append(str(clingo.Function(aux, s.arguments)) + ".")
        vs = ",".join(f"X{i}" for i in range(ar))
        if ar:
            out.append(f":- {name}({vs}), not {aux}({vs}).")
            out.append(f":- {aux}({vs}), not {name}({vs}).")
        else:
            out.append(f":- {name}, not {aux}.")
            out.append(f":- {aux}, not {name}.")
    return "\n".join(out)


def compare(src, dst, instance, vis_preds, show_terms=False, costs=True, one_to_one=False, consts=(), dst_asts=None, fix=None):
    """returns dict(status=same|differ|out_of_scope|src_error|capped, detail=...)
    fix: list of true visible atoms -> only answer sets with exactly this visible part are compared"""
    if fix is not None and vis_preds is not None:
        scope = enumerate_models(text=src, instance=instance, vis_preds=set(), consts=consts, cap=1)
        if scope.scope and not scope.error:
            return {"status": "out_of_scope", "detail": scope.scope[:3]}
        instance = instance + "\n" + fix_constraints(vis_preds, fix)
    a = enumerate_models(text=src, instance=instance, vis_preds=vis_preds, show_terms=show_terms, consts=consts)
    if a.error:
        return {"status": "src_error", "detail": a.error}
    if a.scope:
        return {"status": "out_of_scope", "detail": a.scope[:3]}
    b = enumerate_models(text=dst if dst_asts is None else None, asts=dst_asts, instance=instance, vis_preds=vis_preds,
                         show_terms=show_terms, consts=consts)
    if b.error:
        return {"status": "differ", "detail": {"result_error": b.error}}
    if a.capped or b.capped:
        return {"status": "capped", "detail": "more than %d answer sets" % CAP}

    def norm(ms):
        c = Counter()
        for (proj, cost), n in ms.items():
            c[(proj, cost if costs else ())] += n
        return c

    ca, cb = norm(a.models), norm(b.models)
    if not one_to_one:
        ka, kb = set(ca), set(cb)
        if ka == kb:
            return {"status": "same", "detail": {"answer_sets": [a.n, b.n]}}
        only_a = sorted((sorted(p), c) for p, c in ka - kb)[:2]
        only_b = sorted((sorted(p), c) for p, c in kb - ka)[:2]
        return {"status": "differ", "detail": {"answer_sets": [a.n, b.n], "only_source": only_a, "only_result": only_b}}
    if ca == cb:
        return {"status": "same", "detail": {"answer_sets": [a.n, b.n]}}
    diff = [(sorted(p), c, ca.get((p, c), 0), cb.get((p, c), 0)) for p, c in sorted(set(ca) | set(cb), key=str) if ca.get((p, c), 0) != cb.get((p, c), 0)][:2]
    return {"status": "differ", "detail": {"answer_sets": [a.n, b.n], "count_mismatch(proj,cost,source,result)": diff}}
