"""Run the REAL ngo (imported from /repo/src, current working tree) on a concrete program."""
from __future__ import annotations

import logging

TRAITS = ["cleanup", "unused", "duplication", "symmetry", "minmax_chains", "sum_chains", "math", "inline", "projection"]
DEFAULT = [t for t in TRAITS if t != "duplication"]


def flags_of(enabled):
    if enabled == "default":
        enabled = DEFAULT
    elif enabled == "all":
        enabled = TRAITS
    elif enabled == "none":
        enabled = []
    return {t: (t in enabled) for t in TRAITS}


def parse(text):
    from clingo.ast import parse_string

    stms = []
    parse_string(text, stms.append, logger=lambda c, m: None)
    return stms


def voc(stms):
    """all predicate signatures occurring in the statements (ngo's own collector + show signatures)"""
    from clingo.ast import ASTType
    from ngo.utils.ast import predicates

    v = set()
    for s in stms:
        for p in predicates(s):
            v.add((p.pred.name, p.pred.arity))
        if s.ast_type == ASTType.ShowSignature:
            v.add((s.name, s.arity))
    return v


def run_ngo(text, inp, outp, enabled):
    """returns dict(stms=[str], asts=[AST], inp=[(n,a)], outp=[(n,a)], src_asts=[AST])
    inp/outp: list of (name, arity) or "auto" """
    logging.disable(logging.CRITICAL)
    from ngo import Predicate, auto_detect_input, auto_detect_output, optimize

    stms = parse(text)
    ip = auto_detect_input(stms) if inp == "auto" else [Predicate(n, int(a)) for n, a in inp]
    op = auto_detect_output(stms) if outp == "auto" else [Predicate(n, int(a)) for n, a in outp]
    new = optimize(stms, ip, op, **flags_of(enabled))
    return {
        "stms": [str(s) for s in new],
        "asts": new,
        "inp": sorted({(p.name, p.arity) for p in ip}),
        "outp": sorted({(p.name, p.arity) for p in op}),
        "src_asts": stms,
    }
