"""Syntactic variation operators: from one corpus program derive near-miss shapes the hand-written templates did not think
of (double negation, duplicated literals, choice / guarded / disjunctive heads, head conditions, facts for derived
predicates, negated and two-sided aggregates, reversed bodies, weak-constraint twins, everything on one line ...).
A variant is just another SOURCE program: whether ngo treats it correctly is decided by the same solver queries.
Variants that do not ground safely are dropped by the precondition check of the task."""
from __future__ import annotations

import hashlib
import re

from clingo.ast import ASTType, Sign

from . import astutil


def _rule(head, body):
    if head and body:
        return f"{head} :- {'; '.join(body)}."
    if head:
        return f"{head}."
    return f":- {'; '.join(body)}."


def _vars(node):
    return [n.name for n in astutil.walk(node) if n.ast_type == ASTType.Variable and n.name != "_"]


def _func_wrap(stms, base):
    """wrap one argument position of a derived predicate in f(.) consistently (heads and bodies)"""
    from clingo.ast import Function, Transformer

    defined = sorted(astutil.defined_sigs(stms))
    out = []
    for name, ar in defined[:3]:
        for k in range(min(ar, 2)):
            class T(Transformer):
                def visit_SymbolicAtom(self, atom):
                    t = atom.symbol
                    if t.ast_type == ASTType.Function and t.name == name and len(t.arguments) == ar:
                        args = list(t.arguments)
                        args[k] = Function(t.location, "f", [args[k]], False)
                        return atom.update(symbol=t.update(arguments=args))
                    return atom

            try:
                out.append((f"func_{name}{k}", "\n".join(str(T().visit(s)) for s in stms)))
            except Exception:  # noqa
                pass
    return out


def _parse_lit(text):
    stm = [x for x in astutil.parse(f":- {text}.") if x.ast_type == ASTType.Rule][0]
    return stm.body[0]


def _inner_variants(stms, base):
    """negate / doubly negate comparisons and atoms inside conditions, link a local variable to a global one"""
    out = []
    neg = {"<": ">=", "<=": ">", ">": "<=", ">=": "<", "=": "!=", "!=": "="}
    for i, s in enumerate(stms):
        if s.ast_type not in (ASTType.Rule, ASTType.Minimize):
            continue
        gvars = []
        for b in s.body:
            if b.ast_type == ASTType.Literal and b.sign == Sign.NoSign and b.atom.ast_type == ASTType.SymbolicAtom:
                gvars += _vars(b)
        for j, b in enumerate(s.body):
            conds = []  # (setter, condition list)
            if b.ast_type == ASTType.ConditionalLiteral:
                conds.append((lambda c, b=b: b.update(condition=c), list(b.condition)))
            elif b.ast_type == ASTType.Literal and b.atom.ast_type == ASTType.BodyAggregate:
                for k, e in enumerate(b.atom.elements):
                    def setter(c, b=b, k=k, e=e):
                        els = list(b.atom.elements)
                        els[k] = e.update(condition=c)
                        return b.update(atom=b.atom.update(elements=els))
                    conds.append((setter, list(e.condition)))
            for setter, cond in conds:
                news = []
                for k, c in enumerate(cond):
                    try:
                        if c.ast_type == ASTType.Literal and c.atom.ast_type == ASTType.Comparison and len(c.atom.guards) == 1 and c.sign == Sign.NoSign:
                            m = re.match(r"^(.*?)\s(<=|>=|!=|<|>|=)\s(.*)$", str(c.atom))
                            if m:
                                news.append((f"in_negcmp{j}_{k}", cond[:k] + [_parse_lit(f"not {m.group(1)} {neg[m.group(2)]} {m.group(3)}")] + cond[k + 1:]))
                            news.append((f"in_dnegcmp{j}_{k}", cond[:k] + [_parse_lit("not not " + str(c.atom))] + cond[k + 1:]))
                        if c.ast_type == ASTType.Literal and c.atom.ast_type == ASTType.SymbolicAtom and c.sign == Sign.NoSign:
                            news.append((f"in_dneg{j}_{k}", cond + [_parse_lit("not not " + str(c))]))
                            lv = [v for v in _vars(c) if v not in gvars]
                            if lv and gvars:
                                news.append((f"in_link{j}_{k}", cond + [_parse_lit(f"{lv[0]} = {gvars[0]}")]))
                                news.append((f"in_linkarith{j}_{k}", cond + [_parse_lit(f"{gvars[0]} = 2*{lv[0]}")]))
                                news.append((f"in_linkcmp{j}_{k}", cond + [_parse_lit(f"{lv[0]} <= {gvars[0]}")]))
                    except (RuntimeError, IndexError):
                        continue
                for tag, c2 in news:
                    try:
                        nb = list(s.body)
                        nb[j] = setter(c2)
                        out.append((tag, "\n".join(base[:i] + [str(s.update(body=nb))] + base[i + 1:])))
                    except Exception:  # noqa
                        continue
    return out


def variants(text, max_per_program=60, prefer=()):
    """list of (tag, program text)"""
    try:
        stms = [s for s in astutil.parse(text) if s.ast_type != ASTType.Program]
    except RuntimeError:
        return []
    base = [str(s) for s in stms]
    out = []

    def emit(tag, idx, new_stm, extra=()):
        prog = base[:idx] + ([new_stm] if new_stm is not None else []) + base[idx + 1:] + list(extra)
        out.append((tag, "\n".join(prog)))

    for i, s in enumerate(stms):
        if s.ast_type == ASTType.Rule:
            head = "" if (s.head.ast_type == ASTType.Literal and s.head.atom.ast_type == ASTType.BooleanConstant and not s.head.atom.value) else str(s.head)
            body = [str(b) for b in s.body]
            plain_head = s.head.ast_type == ASTType.Literal and s.head.sign == Sign.NoSign and s.head.atom.ast_type == ASTType.SymbolicAtom
            bvars = []
            for b in s.body:
                if b.ast_type == ASTType.Literal and b.sign == Sign.NoSign and b.atom.ast_type == ASTType.SymbolicAtom:
                    bvars += _vars(b)
            for j, b in enumerate(s.body):
                if b.ast_type == ASTType.Literal and b.atom.ast_type == ASTType.SymbolicAtom:
                    if b.sign == Sign.NoSign:
                        emit(f"dneg{j}", i, _rule(head, body[:j] + ["not not " + body[j]] + body[j + 1:] + ([body[j]] if _vars(b) else [])))
                        emit(f"dup{j}", i, _rule(head, body + [body[j]]))
                        if plain_head and len(body) > 1:
                            emit(f"headcond{j}", i, _rule("{ " + head + " : " + body[j] + " }", body[:j] + body[j + 1:]))
                        vs = _vars(b)
                        for v in vs[:1]:
                            if (" ".join(body) + " " + head).count(v) == 1:
                                emit(f"anon{j}", i, _rule(head, body[:j] + [re.sub(r"\b" + v + r"\b", "_", body[j])] + body[j + 1:]))
                    elif b.sign == Sign.Negation:
                        emit(f"negdrop{j}", i, _rule(head, body[:j] + ["not not " + body[j][4:]] + body[j + 1:]))
                if b.ast_type == ASTType.Literal and b.atom.ast_type == ASTType.Comparison and len(b.atom.guards) == 1:
                    cmp_txt = str(b.atom)
                    if b.sign == Sign.NoSign:
                        emit(f"dnegcmp{j}", i, _rule(head, body[:j] + ["not not " + cmp_txt] + body[j + 1:]))
                        neg = {"<": ">=", "<=": ">", ">": "<=", ">=": "<", "=": "!=", "!=": "="}
                        m = re.match(r"^(.*?)\s(<=|>=|!=|<|>|=)\s(.*)$", cmp_txt)
                        if m:
                            emit(f"negcmp{j}", i, _rule(head, body[:j] + [f"not {m.group(1)} {neg[m.group(2)]} {m.group(3)}"] + body[j + 1:]))
                if b.ast_type == ASTType.Literal and b.atom.ast_type == ASTType.SymbolicAtom and b.sign == Sign.NoSign and b.atom.symbol.ast_type == ASTType.Function:
                    sym = b.atom.symbol
                    for k, a in enumerate(sym.arguments[:3]):
                        if a.ast_type == ASTType.Variable and a.name != "_":
                            args = [str(x) for x in sym.arguments]
                            others = (" ".join(body[:j] + body[j + 1:]) + " " + head)
                            if re.search(r"\b" + a.name + r"\b", others):
                                emit(f"arith{j}_{k}", i, _rule(head, body[:j] + [f"{sym.name}({','.join(args[:k] + [a.name + '+1'] + args[k + 1:])})"] + body[j + 1:]))
                                emit(f"mul{j}_{k}", i, _rule(head, body[:j] + [f"{sym.name}({','.join(args[:k] + ['2*' + a.name] + args[k + 1:])})"] + body[j + 1:]))
                                emit(f"selfsum{j}_{k}", i, _rule(head, body[:j] + [f"{sym.name}({','.join(args[:k] + [a.name + '+' + a.name] + args[k + 1:])})"] + body[j + 1:]))
                                if not a.name.startswith("_"):
                                    # a named variable that merely starts with an underscore (not anonymous in clingo)
                                    emit(f"uscore{j}_{k}", i, re.sub(r"\b" + a.name + r"\b", "_" + a.name, base[i]))
                            emit(f"const{j}_{k}", i, _rule(head, body[:j] + [f"{sym.name}({','.join(args[:k] + ['1'] + args[k + 1:])})"] + body[j + 1:]))
                    if len(sym.arguments) >= 2:
                        emit(f"samename{j}", i, _rule(head, body + [f"{sym.name}({str(sym.arguments[0])})"]))
                        fresh = [str(sym.arguments[0])] + [f"F{k}__" for k in range(1, len(sym.arguments))]
                        emit(f"samepred{j}", i, _rule(head, body[:j] + [f"{sym.name}({','.join(fresh)})"] + body[j:]))
                if b.ast_type == ASTType.Literal and b.atom.ast_type == ASTType.BodyAggregate:
                    if b.sign == Sign.NoSign:
                        emit(f"negagg{j}", i, _rule(head, body[:j] + ["not " + body[j]] + body[j + 1:]))
                        emit(f"dnegagg{j}", i, _rule(head, body[:j] + ["not not " + body[j]] + body[j + 1:]))
                    if b.atom.right_guard is None and b.atom.left_guard is not None and str(b.atom.left_guard.comparison) not in ("ComparisonOperator.Equal",):
                        two = body[j] + " <= 9"
                        emit(f"twosided{j}", i, _rule(head, body[:j] + [two] + body[j + 1:]))
                        if b.sign == Sign.NoSign:
                            emit(f"negtwosided{j}", i, _rule(head, body[:j] + ["not " + two] + body[j + 1:]))
            if len(body) > 1:
                emit("reverse", i, _rule(head, body[::-1]))
            if plain_head:
                emit("choicehead", i, _rule("{ " + head + " }", body))
                emit("choiceguard", i, _rule("{ " + head + " } <= 1", body))
                if bvars:
                    emit("choiceguardvar", i, _rule("1 <= { " + head + " ; vx__(1..3) } <= " + bvars[0] + " + 1", body))
                emit("disjhead", i, _rule(head + " ; vz__", body))
                sym = s.head.atom.symbol
                if sym.ast_type == ASTType.Function and len(sym.arguments) <= 2 and body:
                    emit("addfact", i, base[i], [f"{sym.name}({','.join('1' for _ in sym.arguments)})." if sym.arguments else f"{sym.name}."])
                    emit("secondrule", i, base[i], [_rule(head, body[:-1] + ["vy__"]) if len(body) > 1 else _rule(head, ["vy__"] + body)])
                if body:
                    args = ",".join(str(a) for a in sym.arguments) if sym.ast_type == ASTType.Function else ""
                    emit("weakuse", i, base[i], [f":~ {head}. [1@1{',' + args if args else ''}]"])
            if not head and body:
                emit("weak", i, f":~ {'; '.join(body)}. [1@1]")
                vs = []
                for b in s.body:
                    vs += _vars(b)
                if vs:
                    emit("weakvar", i, f":~ {'; '.join(body)}. [1@1,{vs[0]}]")
        elif s.ast_type == ASTType.Minimize:
            body = [str(b) for b in s.body]
            mvars = []
            for b in s.body:
                mvars += _vars(b)
            if s.weight.ast_type == ASTType.Variable:
                emit("absweight", i, re.sub(r"\. \[" + s.weight.name + r"@", ". [|" + s.weight.name + "|@", base[i], count=1))
            for v in dict.fromkeys(mvars):
                if v != str(s.weight):
                    emit(f"prio_{v}", i, re.sub(r"@[^,\]]+", "@" + v, base[i], count=1))
                    emit(f"prioarith_{v}", i, re.sub(r"@[^,\]]+", "@" + v + "+1", base[i], count=1))
                    break
            if len(body) > 1:
                emit("reverse_min", i, re.sub(r"^:~ .*?\. \[", ":~ " + "; ".join(body[::-1]) + ". [", base[i], count=1))
            emit("dup_min", i, base[i], [re.sub(r"^:~ (.*?)\. \[", lambda m: ":~ " + m.group(1) + "; vy__. [", base[i], count=1)])
    # ---- operators inside aggregate elements and conditional literals (AST level)
    out += _inner_variants(stms, base)
    # ---- whole-program operators
    out += _func_wrap(stms, base)
    for name, ar in sorted(astutil.defined_sigs(stms))[:2]:
        out.append((f"showsig_{name}", "\n".join(base + [f"#show {name}/{ar}."])))
        if ar >= 2:
            vs = ",".join(["X", "Y"] + ["_"] * (ar - 2))
            out.append((f"edge_{name}", "\n".join(base + [f"#edge (X,Y) : {name}({vs})."])))
    for i, s in enumerate(stms):
        if s.ast_type == ASTType.Rule:
            head = "" if (s.head.ast_type == ASTType.Literal and s.head.atom.ast_type == ASTType.BooleanConstant and not s.head.atom.value) else str(s.head)
            body = [str(b) for b in s.body]
            for j, b in enumerate(s.body):
                if b.ast_type == ASTType.Literal and b.atom.ast_type == ASTType.BodyAggregate and b.atom.elements:
                    n = len(b.atom.elements[0].terms)
                    if n >= 1:
                        tv = ",".join(f"W{k}__" for k in range(n))
                        sib1 = str(b).rstrip()[:-1].rstrip() if str(b).rstrip().endswith("}") else None
                        txt = str(b)
                        close = txt.rfind("}")
                        if close > 0:
                            emit(f"sibling_var{j}", i, _rule(head, body[:j] + [txt[:close] + f"; {tv}: vs__({tv}) " + txt[close:]] + body[j + 1:]))
                            emit(f"sibling_const{j}", i, _rule(head, body[:j] + [txt[:close] + "; " + ",".join(["1"] * n) + ": vy__ " + txt[close:]] + body[j + 1:]))
                            if n >= 2:
                                emit(f"sibling_arith{j}", i, _rule(head, body[:j] + [txt[:close] + "; W0__," + ",".join(f"W{k}__+1" for k in range(1, n)) + f": vs__({tv}) " + txt[close:]] + body[j + 1:]))
            hg = None
            if s.head.ast_type == ASTType.Aggregate and len(s.head.elements) == 1:
                lg, rg_ = s.head.left_guard, s.head.right_guard
                if rg_ is not None and lg is None and "LessEqual" in str(rg_.comparison):
                    hg = rg_
                elif lg is not None and rg_ is None and "GreaterEqual" in str(lg.comparison):
                    hg = lg
            if hg is not None:
                e = s.head.elements[0]
                lit, cond = str(e.literal), "; ".join(str(c) for c in e.condition)
                vs = [v for v in _vars(e.literal)]
                tup = ",".join(vs) if vs else "x"
                rg = str(hg.term)
                for fn, w in (("#sum", "1"), ("#count", None), ("#max", "1"), ("#sum", "2")):
                    terms = (w + "," + tup) if w else tup
                    emit(f"headagg_{fn[1:]}{w or ''}", i, _rule(f"{fn} {{ {terms} : {lit}" + (f" : {cond}" if cond else "") + f" }} <= {rg}", body))
        elif s.ast_type == ASTType.Minimize:
            n = len(s.terms)
            tv = ",".join(f"W{k}__" for k in range(n))
            emit("objsibling", i, base[i], [f":~ vs__(W__{',' + tv if tv else ''}). [W__@{s.priority}{',' + tv if tv else ''}]"])
            if n:
                emit("objsibling_arith", i, base[i], [f":~ vs__(W__,{tv}). [W__@{s.priority}," + ",".join(f"W{k}__+1" for k in range(n)) + "]"])
    if len(base) > 1:
        out.append(("oneline", " ".join(base)))
    # deterministic order, bounded
    out.sort(key=lambda tv: hashlib.sha1((tv[0] + tv[1]).encode()).hexdigest())
    if prefer:
        first = [tv for tv in out if tv[0].startswith(prefer)][: max_per_program // 2]
        out = first + [tv for tv in out if tv not in first]
    return out[:max_per_program]


def _directly_recursive_aggregate(text):
    """a rule whose head predicate occurs inside one of its own body aggregates"""
    try:
        stms = astutil.parse(text)
    except RuntimeError:
        return False
    for s in stms:
        if s.ast_type != ASTType.Rule:
            continue
        hs = astutil.head_atom_sigs(s, positive_only=False)
        for b in s.body:
            if b.ast_type == ASTType.Literal and b.atom.ast_type in (ASTType.BodyAggregate, ASTType.Aggregate) and hs & astutil.all_sigs(b):
                return True
    return False


PREFER = {
    "C08": ("dneg", "dnegcmp", "negcmp", "dup", "samepred", "in_dneg", "in_negcmp", "in_dnegcmp"),
    "C09": ("func", "anon", "samepred", "showsig", "edge_", "const", "addfact"),
    "C10": ("dnegcmp", "negcmp", "in_", "headcond", "dneg"),
    "C11": ("dnegcmp", "negcmp", "disjhead", "choiceguard", "headcond", "in_"),
    "C12": ("absweight", "twosided", "negtwosided", "negagg", "dnegagg", "prio", "objsibling", "weak", "in_", "arith", "anon"),
    "C13": ("sibling_", "objsibling", "headagg_", "in_", "func", "anon", "absweight"),
    "C14": ("prioarith", "prio", "dnegcmp", "negcmp", "negagg", "dnegagg", "in_link", "mul", "arith"),
    "C15": ("sibling_", "in_", "objsibling", "secondrule", "anon", "func"),
    "C16": ("uscore", "selfsum", "headagg_", "choiceguardvar", "choicehead", "disjhead", "arith", "mul", "negdrop"),
    "C05": ("dnegcmp", "negcmp", "in_", "negagg", "dnegagg", "twosided", "anon"),
}


def variant_corpus(entries, per_program, total, salt=""):
    """deterministic sample of variants of the given corpus entries.  No variants are derived from inputs of recorded
    known findings (a variant of a defective input shows the same defect under a new text) nor from programs that recurse
    through an aggregate (the class of KF5)"""
    from . import kf

    known_inputs = {e["match"]["source_sha"] for e in kf.load() if e["match"].get("type") == "input"}
    allv = []
    for e in entries:
        if e.get("V") == "show" or e.get("in") == "auto":
            continue
        if kf.sha(e["text"]) in known_inputs or _directly_recursive_aggregate(e["text"]):
            continue
        for tag, t in variants(e["text"], per_program, PREFER.get(salt, ())):
            h = hashlib.sha1((salt + e["id"] + tag + t).encode()).hexdigest()
            allv.append((h, dict(e, id=f"V-{e['id']}-{tag}", text=t, outs=e.get("outs"), base=e["id"])))
    allv.sort(key=lambda x: x[0])
    # half of the sample is reserved for the operators that touch what the pass of this property looks at
    pref = PREFER.get(salt, ())
    if pref:
        tagged = [x for x in allv if x[1]["id"].rsplit("-", 1)[-1].startswith(pref)]
        allv = tagged[: total // 2] + [x for x in allv if x not in tagged[: total // 2]]
    seen, out = set(), []
    for _, e in allv:
        if e["text"] not in seen:
            seen.add(e["text"])
            out.append(e)
        if len(out) >= total:
            break
    return out
