"""Independent (not ngo's) syntactic helpers over clingo ASTs."""
from __future__ import annotations

from clingo.ast import AST, ASTType, Sign, parse_string


def parse(text):
    stms = []
    parse_string(text, stms.append, logger=lambda c, m: None)
    return stms


def children(node):
    for k in node.keys():
        if k == "location":
            continue
        v = getattr(node, k)
        if isinstance(v, AST):
            yield k, v
        elif v is not None and not isinstance(v, (str, int)) and hasattr(v, "__iter__"):
            for x in v:
                if isinstance(x, AST):
                    yield k, x


def walk(node):
    yield node
    for _, c in children(node):
        yield from walk(c)


def sig_of_atom(symatom):
    """(name, arity) of a SymbolicAtom node (classical negation is outside the fragment)"""
    t = symatom.symbol
    while t.ast_type == ASTType.UnaryOperation:
        t = t.argument
    if t.ast_type == ASTType.Function:
        return (t.name, len(t.arguments))
    if t.ast_type == ASTType.SymbolicTerm:
        s = t.symbol
        return (s.name, len(s.arguments))
    if t.ast_type == ASTType.Pool:
        return sig_of_atom_term(t.arguments[0])
    raise ValueError(f"unexpected atom term {t}")


def sig_of_atom_term(t):
    if t.ast_type == ASTType.Function:
        return (t.name, len(t.arguments))
    if t.ast_type == ASTType.SymbolicTerm:
        return (t.symbol.name, len(t.symbol.arguments))
    raise ValueError(str(t))


def all_sigs(node):
    return {sig_of_atom(n) for n in walk(node) if n.ast_type == ASTType.SymbolicAtom}


def head_atom_sigs(stm, positive_only=True):
    """signatures occurring as (positive) head atoms of a rule: plain literal, disjunction elements,
    choice / head aggregate elements (the literal, not the condition)"""
    res = set()
    if stm.ast_type != ASTType.Rule:
        return res
    h = stm.head

    def lit(l):
        if l.ast_type == ASTType.Literal and l.atom.ast_type == ASTType.SymbolicAtom:
            if not positive_only or l.sign == Sign.NoSign:
                res.add(sig_of_atom(l.atom))

    if h.ast_type == ASTType.Literal:
        lit(h)
    elif h.ast_type == ASTType.Disjunction:
        for e in h.elements:
            lit(e.literal)
    elif h.ast_type == ASTType.Aggregate:
        for e in h.elements:
            lit(e.literal)
    elif h.ast_type == ASTType.HeadAggregate:
        for e in h.elements:
            lit(e.condition.literal)
    return res


def program_sigs(stms):
    v = set()
    for s in stms:
        v |= all_sigs(s)
        if s.ast_type == ASTType.ShowSignature:
            v.add((s.name, s.arity))
    return v


def defined_sigs(stms):
    d = set()
    for s in stms:
        d |= head_atom_sigs(s)
    return d


def undefined_sigs(stms):
    """predicates occurring in rules / objectives that never occur as a positive head atom"""
    occ = set()
    for s in stms:
        if s.ast_type in (ASTType.Rule, ASTType.Minimize, ASTType.Edge, ASTType.Heuristic, ASTType.External, ASTType.ShowTerm, ASTType.ProjectAtom):
            occ |= all_sigs(s)
    return occ - defined_sigs(stms)


def int_constants(stms):
    ks = set()
    for s in stms:
        for n in walk(s):
            if n.ast_type == ASTType.SymbolicTerm and str(n.symbol.type) == "SymbolType.Number":
                ks.add(n.symbol.number)
    return ks


def has_optimization(stms):
    return any(s.ast_type == ASTType.Minimize for s in stms)


def _is_symconst(t):
    if t.ast_type == ASTType.Function and not t.arguments and not t.external:
        return t.name
    if t.ast_type == ASTType.SymbolicTerm and str(t.symbol.type) == "SymbolType.Function" and not t.symbol.arguments:
        return t.symbol.name
    return None


def _has_arith(t):
    return any(n.ast_type in (ASTType.BinaryOperation, ASTType.UnaryOperation) for n in walk(t))


def symbolic_constants_in_arithmetic(stms, consts=()):
    """names of symbolic constants (not defined by #const / -c) that are operands of arithmetic or are compared
    with an arithmetic term: such a program applies arithmetic to non-integers, which every property excludes"""
    defined = {c.split("=")[0].strip() for c in consts}
    for s in stms:
        if s.ast_type == ASTType.Definition:
            defined.add(s.name)
    bad = set()
    for s in stms:
        for n in walk(s):
            if n.ast_type == ASTType.BinaryOperation:
                for o in (n.left, n.right):
                    c = _is_symconst(o)
                    if c and c not in defined:
                        bad.add(c)
            elif n.ast_type == ASTType.UnaryOperation:
                c = _is_symconst(n.argument)
                if c and c not in defined:
                    bad.add(c)
            elif n.ast_type == ASTType.Comparison:
                terms = [n.term] + [g.term for g in n.guards]
                if any(_has_arith(t) for t in terms):
                    for t in terms:
                        c = _is_symconst(t)
                        if c and c not in defined:
                            bad.add(c)
    return bad


def _anti_literals(rule):
    """strings of the literals at antimonotone positions of a rule body"""
    out = []
    for b in rule.body:
        if b.ast_type == ASTType.Literal and b.sign == Sign.Negation:
            out.append(str(b))
        elif b.ast_type == ASTType.ConditionalLiteral:
            out += [str(c) for c in b.condition]
            if b.literal.sign == Sign.Negation:
                out.append(str(b.literal))
    return out


def antimonotone_domain_sigs(stms, prefix, src_stms=None):
    """signatures that occur under `not`, or in the condition of a conditional literal, in the body of a rule whose head
    predicate is named <prefix>* (after `unused` the substituted domain predicate may have been replaced by the predicate
    that defines it, so the name of the body predicate is not restricted)"""
    out = set()
    # a literal that stands verbatim at an antimonotone position of a SOURCE rule for the approximated predicate was
    # copied, not substituted: it has exactly the source extension and cannot make the domain too small
    exact = {}
    for s in src_stms or ():
        if s.ast_type == ASTType.Rule:
            for name, ar in head_atom_sigs(s):
                exact.setdefault(name, set()).update(_anti_literals(s))
    for s in stms:
        if s.ast_type != ASTType.Rule or s.head.ast_type != ASTType.Literal or s.head.atom.ast_type != ASTType.SymbolicAtom:
            continue
        try:
            hname = sig_of_atom(s.head.atom)[0]
            if not hname.startswith(prefix):
                continue
        except ValueError:
            continue
        same = exact.get(hname[len(prefix):], set())
        for b in s.body:
            if b.ast_type == ASTType.Literal and b.sign == Sign.Negation:
                if str(b) not in same:
                    out |= all_sigs(b)
            elif b.ast_type == ASTType.ConditionalLiteral:
                for c in b.condition:
                    if str(c) not in same:
                        out |= all_sigs(c)
                if b.literal.sign == Sign.Negation and str(b.literal) not in same:
                    out |= all_sigs(b.literal)
    return out


def underivable_sigs(stms, ins):
    """predicates that have defining rules but can never be derived from the inputs (e.g. `foo(E) :- edge(E,F), foo(F).`
    without a base case): rules over them would be vacuous for every instance, so the corpus driver declares them inputs
    as well (ngo's own auto-detection reports self-defining predicates as inputs too)"""
    rules = [s for s in stms if s.ast_type == ASTType.Rule]
    derivable = set(ins)
    changed = True
    while changed:
        changed = False
        for r in rules:
            heads = head_atom_sigs(r)
            if heads <= derivable:
                continue
            need = set()
            for b in r.body:
                if b.ast_type == ASTType.Literal and b.sign == Sign.NoSign and b.atom.ast_type == ASTType.SymbolicAtom:
                    need.add(sig_of_atom(b.atom))
            if need <= derivable:
                derivable |= heads
                changed = True
    dead = defined_sigs(stms) - derivable
    # opening a recursive predicate whose head computes a new term (seq(T,S+1) :- .., foo(T,S).) makes grounding diverge
    for r in rules:
        if r.head.ast_type == ASTType.Literal and _has_arith(r.head):
            scc_like = head_atom_sigs(r)
            if scc_like & dead:
                return set()
    return dead


def infsup_guard_sigs(stms):
    """for rules `h(..,#inf|#sup) :- q(X); not c(..,X); ...` (the rule minmax_chains emits for the empty aggregate, whatever
    later passes renamed its predicates to): the signatures q of the positive body literals that share with the negative
    literal a variable not occurring in the head -- the least/greatest element of the value domain"""
    out = set()
    for s in stms:
        if s.ast_type != ASTType.Rule or s.head.ast_type != ASTType.Literal or s.head.atom.ast_type != ASTType.SymbolicAtom:
            continue
        infsup = [n for n in walk(s.head) if n.ast_type == ASTType.SymbolicTerm and str(n.symbol) in ("#inf", "#sup")]
        if not infsup:
            continue
        hv = {n.name for n in walk(s.head) if n.ast_type == ASTType.Variable}
        negs = [b for b in s.body if b.ast_type == ASTType.Literal and b.sign == Sign.Negation and b.atom.ast_type == ASTType.SymbolicAtom]
        for ng in negs:
            nv = {n.name for n in walk(ng) if n.ast_type == ASTType.Variable} - hv
            for b in s.body:
                if b.ast_type == ASTType.Literal and b.sign == Sign.NoSign and b.atom.ast_type == ASTType.SymbolicAtom:
                    if nv & {n.name for n in walk(b) if n.ast_type == ASTType.Variable}:
                        out.add(sig_of_atom(b.atom))
    return out


def multiplies_variable(stms):
    """a product, quotient, remainder or absolute value with a variable operand occurs (X = Y*3, b(2*X), |X|)"""
    from clingo.ast import BinaryOperator, ComparisonOperator, UnaryOperator

    for s in stms:
        # variables that carry the value of an aggregate (X = #sum{..}) are determined by it: scaling them imposes no
        # divisibility condition on anything else, so such products are not the pattern of KF2
        aggvars = set()
        for b in getattr(s, "body", ()) or ():
            if b.ast_type == ASTType.Literal and b.sign == Sign.NoSign and b.atom.ast_type == ASTType.BodyAggregate:
                for g in (b.atom.left_guard, b.atom.right_guard):
                    if g is not None and g.comparison == ComparisonOperator.Equal and g.term.ast_type == ASTType.Variable:
                        aggvars.add(g.term.name)
        for n in walk(s):
            if n.ast_type == ASTType.BinaryOperation and n.operator_type in (BinaryOperator.Multiplication, BinaryOperator.Division, BinaryOperator.Modulo):
                vs = [m.name for side in (n.left, n.right) for m in walk(side) if m.ast_type == ASTType.Variable]
                if vs and not (n.operator_type == BinaryOperator.Multiplication and set(vs) <= aggvars):
                    return True
            if n.ast_type == ASTType.UnaryOperation and n.operator_type == UnaryOperator.Absolute:
                return True
    return False


def aggregate_result_equated_with_variable_inside_aggregate(stms):
    """`X = #agg{ .. T .. }, T = f(X)`: an equality whose one side is a variable that occurs inside an aggregate element and
    whose other side contains the value of an aggregate (normalize inlines T and makes the aggregates depend on their own
    results; the pattern of KF3)"""
    from clingo.ast import ComparisonOperator

    for s in stms:
        if s.ast_type not in (ASTType.Rule, ASTType.Minimize):
            continue
        results, inside = set(), set()
        for b in s.body:
            if b.ast_type == ASTType.Literal and b.atom.ast_type in (ASTType.BodyAggregate, ASTType.Aggregate):
                for g in (b.atom.left_guard, b.atom.right_guard):
                    if g is not None and g.comparison == ComparisonOperator.Equal:
                        results |= {m.name for m in walk(g.term) if m.ast_type == ASTType.Variable}
                for e in b.atom.elements:
                    inside |= {m.name for m in walk(e) if m.ast_type == ASTType.Variable}
        for b in s.body:
            if b.ast_type == ASTType.Literal and b.atom.ast_type == ASTType.Comparison and len(b.atom.guards) == 1 and (
                    (b.sign == Sign.NoSign and b.atom.guards[0].comparison == ComparisonOperator.Equal)
                    or (b.sign == Sign.Negation and b.atom.guards[0].comparison == ComparisonOperator.NotEqual)):
                for lhs, rhs in ((b.atom.term, b.atom.guards[0].term), (b.atom.guards[0].term, b.atom.term)):
                    if lhs.ast_type == ASTType.Variable and lhs.name in inside and results & {m.name for m in walk(rhs) if m.ast_type == ASTType.Variable}:
                        return True
    return False


PROGRAM_PATTERNS = {"multiplies_variable": multiplies_variable,
                    "aggregate_result_equated_with_variable_inside_aggregate": aggregate_result_equated_with_variable_inside_aggregate}
