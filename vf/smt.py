"""Stable-model semantics of ground programs in SMT-LIB2 (QF_LIA + Booleans; one quantifier on the slow path).

IsStable  : rules satisfied + every true atom supported by a rule + level ranking inside positive SCCs
NotStable : some rule violated, or a non-empty unfounded set exists (existential certificate)
"""
from __future__ import annotations

from .gp import GP, blits


def AND(xs):
    xs = [x for x in xs if x != "true"]
    if not xs:
        return "true"
    if "false" in xs:
        return "false"
    if len(xs) == 1:
        return xs[0]
    return "(and " + " ".join(xs) + ")"


def OR(xs):
    xs = [x for x in xs if x != "false"]
    if not xs:
        return "false"
    if "true" in xs:
        return "true"
    if len(xs) == 1:
        return xs[0]
    return "(or " + " ".join(xs) + ")"


def NOT(x):
    if x == "true":
        return "false"
    if x == "false":
        return "true"
    return f"(not {x})"


def IMP(a, b):
    if a == "true":
        return b
    if a == "false" or b == "true":
        return "true"
    return f"(=> {a} {b})"


def num(n):
    return str(n) if n >= 0 else f"(- {-n})"


def SUM(ts):
    ts = list(ts)
    if not ts:
        return "0"
    if len(ts) == 1:
        return ts[0]
    return "(+ " + " ".join(ts) + ")"


class Enc:
    """accumulates declarations and assertions of one query"""

    def __init__(self):
        self.decl = []
        self.asserts = []
        self.names = set()

    def bvar(self, name):
        assert name not in self.names, name
        self.names.add(name)
        self.decl.append(f"(declare-const {name} Bool)")
        return name

    def ivar(self, name, lo, hi):
        assert name not in self.names, name
        self.names.add(name)
        self.decl.append(f"(declare-const {name} Int)")
        self.asserts.append(f"(and (>= {name} {lo}) (<= {name} {hi}))")
        return name

    def add(self, f):
        if f != "true":
            self.asserts.append(f)

    def text(self, get=()):
        out = ["(set-option :produce-models true)"]
        out += self.decl
        out += [f"(assert {a})" for a in self.asserts]
        out.append("(check-sat)")
        if get:
            out.append("(get-value (" + " ".join(get) + "))")
        return "\n".join(out) + "\n"


def lit(x, l):
    return x[l] if l > 0 else NOT(x[-l])


def body_f(x, b, extra=None):
    """formula of a rule body under assignment x; extra(l) is an additional condition a positive
    literal l has to meet to count (level ranking / not in the unfounded set)"""
    if b[0] == "n":
        parts = []
        for l in b[1]:
            parts.append(lit(x, l))
            if extra is not None and l > 0:
                e = extra(l)
                if e is not None:
                    parts.append(e)
        return AND(parts)
    _, bound, wl = b
    if bound <= 0:
        return "true"
    terms = []
    for l, w in wl:
        c = lit(x, l)
        if extra is not None and l > 0:
            e = extra(l)
            if e is not None:
                c = AND([c, e])
        if c == "false":
            continue
        terms.append(num(w) if c == "true" else f"(ite {c} {num(w)} 0)")
    if not terms:
        return "false"
    return f"(>= {SUM(terms)} {num(bound)})"


def enc_stable(enc: Enc, gp: GP, x, pre, heads=None):
    """assert: x is a stable model of gp (heads=None), or of the rules whose head lies in `heads`
    with all other atoms given (constraints are then NOT asserted)"""
    scc, sizes = gp.sccs(heads)
    lv = {a: enc.ivar(f"{pre}l{a}", 0, sizes[scc[a]]) for a in sorted(scc)}
    for c, h, b in gp.rules:
        if heads is not None:
            if not h:
                continue
            inside = [a in heads for a in h]
            if not any(inside):
                continue
            if not all(inside):
                raise ValueError("rule with mixed heads")
        if c:
            continue
        enc.add(IMP(body_f(x, b), OR(x[a] for a in h)))
    if heads is None and gp.edges:
        # #edge: the graph of the edges whose condition holds is acyclic <=> a topological numbering exists
        nodes = sorted({n for u, v, _ in gp.edges for n in (u, v)})
        nl = {n: enc.ivar(f"{pre}n{n}", 0, len(nodes)) for n in nodes}
        for u, v, cond in gp.edges:
            enc.add(IMP(AND(lit(x, l) for l in cond), f"(< {nl[u]} {nl[v]})"))
    if heads is None and not gp.head_cycle_free():
        # non head-cycle-free disjunction: shifting is not complete, so the foundedness half of stability is stated
        # directly: no non-empty unfounded set (one universally quantified block of Booleans)
        headed = sorted(a for a in gp.atoms if x[a] != "false" and a in gp.by_head)
        for a in sorted(gp.atoms):
            if a not in gp.by_head and x[a] not in ("false", "true"):
                enc.add(NOT(x[a]))
        u = {a: f"{pre}U{a}" for a in headed}
        if u:
            bound = " ".join(f"({n} Bool)" for n in u.values())
            enc.add(f"(forall ({bound}) {NOT(AND(_unfounded_parts(gp, x, u)))})")
        return
    atoms = gp.atoms if heads is None else heads
    for a in sorted(atoms):
        sup = []
        for i in gp.by_head.get(a, ()):
            c, h, b = gp.rules[i]

            def extra(l, a=a):
                if a in scc and scc.get(l) == scc[a]:
                    return f"(< {lv[l]} {lv[a]})"
                return None

            parts = [body_f(x, b, extra if a in scc else None)]
            for o in h:
                if o != a:
                    parts.append(NOT(x[o]))
            sup.append(AND(parts))
        enc.add(IMP(x[a], OR(sup)))


def f_stable(gp: GP, x, lvnames, heads=None):
    """like enc_stable but returns (formula, [(levelname, lo, hi)]) without touching an Enc"""
    e = Enc()
    enc_stable(e, gp, x, lvnames, heads)
    ints = [d.split()[1] for d in e.decl]
    return AND(e.asserts), ints


def _unfounded_parts(gp: GP, x, u):
    """conjuncts stating that the set u (atom -> Boolean term) is a non-empty unfounded set of gp w.r.t. x"""
    parts = [OR(u.values())]
    for a in u:
        parts.append(IMP(u[a], x[a]))

    def notu(l):
        return NOT(u[l]) if l in u else None

    for c, h, b in gp.rules:
        if not h:
            continue
        es = body_f(x, b, notu)
        for a in h:
            if a not in u:
                continue
            others = [OR([NOT(x[o]), u[o] if o in u else "false"]) for o in h if o != a]
            parts.append(IMP(u[a], NOT(AND([es] + others))))
    return parts


def f_notstable(enc: Enc, gp: GP, x, pre):
    """formula: x is not a stable model of gp (declares the unfounded-set certificate in enc)"""
    viol = []
    for c, h, b in gp.rules:
        if c:
            continue
        viol.append(AND([body_f(x, b)] + [NOT(x[a]) for a in h]))
    headed = sorted(a for a in gp.atoms if x[a] != "false")
    u = {a: enc.bvar(f"{pre}u{a}") for a in headed}
    parts = _unfounded_parts(gp, x, u)
    unf = enc.bvar(f"{pre}unf")
    enc.add(IMP(unf, AND(parts)))
    cyc = []
    if gp.edges:
        # certificate of a cycle: a non-empty set of edges with true conditions in which every target has a selected successor
        ce = {i: enc.bvar(f"{pre}cy{i}") for i in range(len(gp.edges))}
        cparts = [OR(ce.values())]
        for i, (u, v, cond) in enumerate(gp.edges):
            cparts.append(IMP(ce[i], AND(lit(x, l) for l in cond)))
            cparts.append(IMP(ce[i], OR(ce[j] for j, (u2, _, _) in enumerate(gp.edges) if u2 == v)))
        cy = enc.bvar(f"{pre}cyc")
        enc.add(IMP(cy, AND(cparts)))
        cyc = [cy]
    return OR(viol + [unf] + cyc)


def cost_terms(gp: GP, x):
    res = {}
    for p, lits_ in gp.minimize:
        for l, w in lits_:
            c = lit(x, l)
            if c == "false":
                continue
            res.setdefault(p, []).append(num(w) if c == "true" else f"(ite {c} {num(w)} 0)")
    return res


def cost_differs(ca, cb):
    out = []
    for p in sorted(set(ca) | set(cb)):
        out.append(NOT(f"(= {SUM(ca.get(p, []))} {SUM(cb.get(p, []))})"))
    return out


def exclusions(X: GP, xa, blocked):
    """blocked: list of out-of-scope cubes (core, repair): the instances that contain all atoms of `core` and none of
    `repair` are excluded (a plain set is read as a cube without repair atoms)"""
    out = []
    for cube in blocked:
        core, repair = cube if isinstance(cube, tuple) else (cube, ())
        lits_ = []
        for s in core:
            a = X.vis.get(s)
            lits_.append(xa[a] if a is not None else "false")
        for s in repair:
            a = X.vis.get(s)
            if a is not None:
                lits_.append(NOT(xa[a]))
        out.append(NOT(AND(lits_)))
    return out


def kf_constraints(G: GP, x, specs):
    """assumptions that exclude the instance class of a known finding on the result program G:
    {"kind": "nonempty", "sigs": [...]}   : every listed signature has a true atom (false if it has no atom)
    {"kind": "dom_superset", "prefix": p}  : every true atom q(t) whose domain atom <p>q(t) exists implies it; a true
                                            q(t) without a ground domain atom although <p>q has atoms is excluded"""
    out = []
    by_sym = {G.sym[a]: a for a in G.sig if a in G.atoms}
    for spec in specs:
        if spec["kind"] == "nonempty":
            groups = {tuple(sg): [] for sg in spec["sigs"]}
            for a, sg in G.sig.items():
                if a in G.atoms and sg in groups:
                    groups[sg].append(x[a])
            out += [OR(v) for _, v in sorted(groups.items())]
        elif spec["kind"] == "all_false":
            sg_set = {tuple(sg) for sg in spec["sigs"]}
            for a, sg in G.sig.items():
                if a in G.atoms and sg in sg_set:
                    out.append(NOT(x[a]))
        elif spec["kind"] == "dom_superset":
            pre = spec["prefix"]
            names = {sg[0] for sg in G.sig.values()}
            for a, (name, ar) in G.sig.items():
                if a not in G.atoms or name.startswith(pre) or (pre + name) not in names:
                    continue
                sym = G.sym[a]
                d = by_sym.get(pre + sym)
                out.append(IMP(x[a], x[d] if d is not None else "false"))
    return out


def q_nocounterpart(X: GP, Y: GP, costs=True, blocked=(), path="auto", nonempty=None):
    """query: exists an instance and an answer set of X without an equally priced answer set of Y that
    has the same visible part.  Returns (smt text | None, xa map, path used, reason)"""
    enc = Enc()
    xa = {a: enc.bvar(f"a{a}") for a in sorted(X.atoms)}
    enc_stable(enc, X, xa, "A")
    for f in exclusions(X, xa, blocked):
        enc.add(f)
    xb = {}
    nocp = []
    for s, a in Y.vis.items():
        xb[a] = xa[X.vis[s]] if s in X.vis else "false"
    for s, a in X.vis.items():
        if s not in Y.vis:
            nocp.append(xa[a])
    ok, reason = Y.hidden_determined()
    if path == "fast" and not ok:
        return None, xa, "fast", reason
    if ok and path != "slow":
        for a in sorted(Y.hidden):
            xb[a] = enc.bvar(f"b{a}")
        enc_stable(enc, Y, xb, "B", heads=Y.hidden)
        if nonempty:
            side, regexes = nonempty
            for f in kf_constraints(X if side == "X" else Y, xa if side == "X" else xb, regexes):
                enc.add(f)
        nocp.append(f_notstable(enc, Y, xb, "B"))
        if costs:
            nocp += cost_differs(cost_terms(X, xa), cost_terms(Y, xb))
        enc.add(OR(nocp))
        return enc, xa, "fast", ""
    # slow path: keep the universal quantifier over Y's hidden atoms and level variables
    if nonempty:
        if nonempty[0] == "X":
            for f in kf_constraints(X, xa, nonempty[1]):
                enc.add(f)
        else:
            return None, xa, "slow", "known-finding exclusion cannot be expressed on the slow path"
    inner = Enc()
    for a in sorted(Y.hidden):
        xb[a] = inner.bvar(f"b{a}")
    enc_stable(inner, Y, xb, "B")
    body = list(inner.asserts)
    if costs:
        ca, cb = cost_terms(X, xa), cost_terms(Y, xb)
        for p in sorted(set(ca) | set(cb)):
            body.append(f"(= {SUM(ca.get(p, []))} {SUM(cb.get(p, []))})")
    bound = []
    for d in inner.decl:
        _, name, sort = d[1:-1].split()
        bound.append(f"({name} {sort})")
    if bound:
        nocp.append(f"(forall ({' '.join(bound)}) {NOT(AND(body))})")
    else:
        nocp.append(NOT(AND(body)))
    enc.add(OR(nocp))
    return enc, xa, "slow", reason


def q_reach(X: GP, blocked=()):
    """reachability twin: some instance has an answer set"""
    enc = Enc()
    xa = {a: enc.bvar(f"a{a}") for a in sorted(X.atoms)}
    enc_stable(enc, X, xa, "A")
    for f in exclusions(X, xa, blocked):
        enc.add(f)
    return enc, xa


def q_two_models(Y: GP, src_vis, blocked=()):
    """injectivity: two answer sets of Y for one instance, equal on the visible atoms, different on a
    symbolic hidden atom"""
    enc = Enc()
    x1 = {a: enc.bvar(f"a{a}") for a in sorted(Y.atoms)}
    x2 = {}
    for a in sorted(Y.atoms):
        x2[a] = x1[a] if a in Y.visible else enc.bvar(f"c{a}")
    enc_stable(enc, Y, x1, "A")
    enc_stable(enc, Y, x2, "C")
    for f in exclusions(Y, x1, blocked):
        enc.add(f)
    diff = [NOT(f"(= {x1[a]} {x2[a]})") for a in sorted(Y.hidden) if a in Y.sym]
    enc.add(OR(diff))
    return enc, x1
