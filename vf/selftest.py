"""Guards against a wrong encoder (DESIGN.md 2.7), run on a seeded sample of the pairs of every E1 check:

1. encoder validation against clingo: the ground program (as read from gringo's observer) is printed as a propositional
   program; for seeded concrete instances the stable models enumerated from the SMT encoding (z3, blocking clauses) must be
   exactly clingo's answer sets of that propositional program;
2. sabotage twins: one rule class of the ground result program is damaged (drop a visible-headed rule, drop a constraint,
   flip the sign of a body literal, lower a weight bound); the NoCounterpart verdicts must agree with clingo on seeded
   instances: a `sat` must be confirmed by clingo on the ground programs, an `unsat` must not be contradicted;
3. second solvers: the same SMT-LIB text is given to z3 4.8.12 and cvc5; a disagreement or an (error line is a harness error."""
from __future__ import annotations

import os
import random
import sys
import time

import clingo

from . import smt, solve
from .gp import GP, blits
from .ground import GroundError, ground

ROOT = os.path.dirname(os.path.dirname(os.path.abspath(__file__)))


def gp_to_asp(gp: GP):
    """propositional program text: atom n -> a<n>"""
    out = []

    def L(l):
        return f"a{l}" if l > 0 else f"not a{-l}"

    for c, h, b in gp.rules:
        if b[0] == "n":
            body = ", ".join(L(l) for l in b[1])
        else:
            body = f"{b[1]} <= #sum {{ " + "; ".join(f"{w},{i} : {L(l)}" for i, (l, w) in enumerate(b[2])) + " }"
        if c:
            head = "{ " + "; ".join(f"a{a}" for a in h) + " }"
        else:
            head = "; ".join(f"a{a}" for a in h)
        out.append((head + (" :- " + body if body else "") + ".") if head else ":- " + body + ".")
    for i, (u, v, cond) in enumerate(gp.edges):
        out.append(f"#edge (n{u},n{v})" + (" : " + ", ".join(L(l) for l in cond) if cond else "") + ".")
    return "\n".join(out)


def clingo_models(text, fixed, show_atoms, cap=120):
    """answer sets of the propositional program with the atoms in `fixed` pinned, projected on show_atoms"""
    cons = "\n".join((f":- not a{a}." if v else f":- a{a}.") for a, v in fixed.items())
    ctl = clingo.Control(["0"], logger=lambda c, m: None)
    ctl.add("base", [], text + "\n" + cons)
    ctl.ground([("base", [])])
    names = {f"a{a}" for a in show_atoms}
    res = set()
    done = []

    def on_model(m):
        res.add(frozenset(str(s) for s in m.symbols(atoms=True) if str(s) in names))
        if len(res) > cap:
            done.append(1)
            return False
        return True

    ctl.solve(on_model=on_model)
    return None if done else res


def z3_models(gp: GP, fixed, show_atoms, cap=120):
    sys.path.insert(0, os.path.join(ROOT, ".deps"))
    import z3

    enc = smt.Enc()
    x = {a: enc.bvar(f"a{a}") for a in sorted(gp.atoms)}
    smt.enc_stable(enc, gp, x, "A")
    s = z3.Solver()
    s.set("timeout", 60000)
    s.from_string("\n".join(enc.decl + [f"(assert {a})" for a in enc.asserts]))
    vs = {a: z3.Bool(f"a{a}") for a in gp.atoms}
    for a, v in fixed.items():
        s.add(vs[a] if v else z3.Not(vs[a]))
    shown = sorted(show_atoms)
    res = set()
    while True:
        r = s.check()
        if r != z3.sat:
            if r != z3.unsat:
                return None
            break
        m = s.model()
        vals = {a: z3.is_true(m.eval(vs[a], model_completion=True)) for a in shown}
        res.add(frozenset(f"a{a}" for a in shown if vals[a]))
        if len(res) > cap:
            return None
        s.add(z3.Or([vs[a] != vals[a] for a in shown]))
    return res


def validate_encoder(gp: GP, instance_atoms, rnd, n_inst=3):
    """returns (compared instances, mismatches[list])"""
    text = gp_to_asp(gp)
    shown = [a for a in gp.atoms if a in gp.sym]
    bad, n = [], 0
    for _ in range(n_inst):
        fixed = {a: rnd.random() < 0.45 for a in instance_atoms}
        cm = clingo_models(text, fixed, shown)
        if cm is None:
            continue
        zm = z3_models(gp, fixed, shown)
        if zm is None:
            continue
        n += 1
        if cm != zm:
            bad.append({"instance": sorted(gp.sym[a] for a, v in fixed.items() if v), "clingo": len(cm), "smt": len(zm),
                        "only_clingo": [sorted(gp.sym.get(int(s[1:]), s) for s in m) for m in list(cm - zm)[:1]],
                        "only_smt": [sorted(gp.sym.get(int(s[1:]), s) for s in m) for m in list(zm - cm)[:1]]})
    return n, bad


# ------------------------------------------------------------------------------------------------- sabotage
def sabotage(gp: GP, kind, rnd):
    """returns a damaged copy of the ground program (or None if the rule class does not occur)"""
    import copy

    g2 = copy.copy(gp)
    rules = list(gp.rules)
    if kind == "drop_visible_rule":
        idx = [i for i, (c, h, b) in enumerate(rules) if h and not c and all(a in gp.visible for a in h) and blits(b)]
    elif kind == "drop_constraint":
        idx = [i for i, (c, h, b) in enumerate(rules) if not h]
    elif kind == "flip_literal":
        idx = [i for i, (c, h, b) in enumerate(rules) if b[0] == "n" and b[1] and (not h or all(a in gp.visible for a in h))]
    elif kind == "lower_bound":
        idx = [i for i, (c, h, b) in enumerate(rules) if b[0] == "w" and b[1] > 1]
    else:
        raise ValueError(kind)
    if not idx:
        return None
    i = rnd.choice(idx)
    c, h, b = rules[i]
    if kind in ("drop_visible_rule", "drop_constraint"):
        del rules[i]
    elif kind == "flip_literal":
        ls = list(b[1])
        j = rnd.randrange(len(ls))
        ls[j] = -ls[j]
        rules[i] = (c, h, ("n", tuple(ls)))
    else:
        rules[i] = (c, h, ("w", b[1] - 1, b[2]))
    g2.rules = rules
    g2._finish()
    return g2


def ground_compare(A: GP, B: GP, fixed_syms, cap=3000):
    """clingo on the two propositional programs with the instance pinned: do the visible projections agree?"""
    def models(gp):
        fixed = {}
        for s, a in gp.vis.items():
            if s in fixed_syms:
                fixed[a] = fixed_syms[s]
        ms = clingo_models(gp_to_asp(gp), fixed, list(gp.vis.values()), cap)
        if ms is None:
            return None
        inv = {f"a{a}": s for s, a in gp.vis.items()}
        return {frozenset(inv[x] for x in m) for m in ms}

    ma, mb = models(A), models(B)
    if ma is None or mb is None:
        return None
    return ma == mb


def sabotage_twin(A: GP, B: GP, inst_sigs, rnd, kind, timeout=20):
    """verdict of the encoder on (A, damaged B) checked against clingo on the ground programs"""
    B2 = sabotage(B, kind, rnd)
    if B2 is None:
        return {"kind": kind, "status": "not_applicable"}
    ok, _ = B2.hidden_determined()
    if not ok or not A.hidden_determined()[0] or A.minimize or B.minimize:
        return {"kind": kind, "status": "not_applicable"}
    inst_atoms = [s for s, a in A.vis.items() if A.sig.get(a) in inst_sigs]
    verdicts = []
    for X, Y in ((A, B2), (B2, A)):
        enc, xa, path, reason = smt.q_nocounterpart(X, Y, costs=False, path="fast")
        if enc is None:
            return {"kind": kind, "status": "not_applicable"}
        get = [xa[a] for a in sorted(X.atoms) if a in X.sym]
        v, model, dt = solve.run(enc.text(get), timeout)
        if v == "sat":
            name2atom = {n: a for a, n in xa.items()}
            fixed = {X.sym[name2atom[n]]: val for n, val in model.items() if n in name2atom and X.sym.get(name2atom[n]) in inst_atoms}
            same = ground_compare(A, B2, fixed)
            if same is False:
                return {"kind": kind, "status": "sat_confirmed_by_clingo"}
            if same is None:
                return {"kind": kind, "status": "sat_replay_capped"}
            return {"kind": kind, "status": "ENCODER_ERROR", "why": "sat on the damaged program but clingo sees no difference for the instance"}
        verdicts.append(v)
        if v != "unsat":
            return {"kind": kind, "status": "inconclusive"}
    # both unsat: the damage may be semantically neutral; clingo must not contradict on seeded instances
    for _ in range(6):
        fixed = {s: rnd.random() < 0.5 for s in inst_atoms}
        same = ground_compare(A, B2, fixed)
        if same is False:
            return {"kind": kind, "status": "ENCODER_ERROR", "why": "unsat on the damaged program but clingo separates the programs", "instance": sorted(s for s, v in fixed.items() if v)}
    return {"kind": kind, "status": "unsat_not_contradicted"}


def second_solvers(text, verdict, timeout=30):
    """the same SMT-LIB text through z3 4.8.12 and cvc5; returns list of disagreements"""
    out = []
    for name in ("z3", "cvc5"):
        t = text if name != "cvc5" else "(set-logic ALL)\n" + text
        v, _, dt = solve.run(t, timeout, solver=name)
        if v in ("sat", "unsat") and v != verdict:
            out.append({"solver": name, "verdict": v, "primary": verdict})
        elif v == "error":
            out.append({"solver": name, "verdict": "error"})
    return out


def run_task(task):
    """self test on one (source, result) pair; task: text, dst, in, V, universe, seed"""
    rnd = random.Random(task.get("seed", 0))
    res = {"id": task.get("id"), "status": "done", "problems": []}
    try:
        ga = ground(text=task["source"], inputs=task["in"], universe=task["universe"])
        gb = ground(text=task["result"], inputs=task["in"], universe=task["universe"])
    except GroundError:
        res["status"] = "skip"
        return res
    if len(ga.rules) > 1500 or len(gb.rules) > 1500 or ga.theory or gb.theory or ga.externals or gb.externals:
        res["status"] = "skip"
        return res
    V = set(tuple(x) for x in task["V"])
    A, B = GP(ga, V).slice(), GP(gb, V).slice()
    ins = set(tuple(x) for x in task["in"])
    t0 = time.time()
    n_val = 0
    for gp, tag in ((A, "source"), (B, "result")):
        inst_atoms = [a for a in gp.atoms if gp.sig.get(a) in ins]
        n, bad = validate_encoder(gp, inst_atoms, rnd, 2)
        n_val += n
        for b in bad:
            res["problems"].append({"what": "encoder validation: stable models from the SMT encoding differ from clingo", "program": tag, **b})
    res["encoder_instances"] = n_val
    res["twins"] = []
    if True:
        for kind in ("drop_visible_rule", "drop_constraint", "flip_literal", "lower_bound"):
            tw = sabotage_twin(A, B, ins, rnd, kind)
            res["twins"].append(tw)
            if tw["status"] == "ENCODER_ERROR":
                res["problems"].append({"what": "sabotage twin", **tw})
        enc, xa, path, _ = smt.q_nocounterpart(A, B, costs=True)
        if enc is not None and path == "fast":
            text = enc.text()
            v, _, _ = solve.run(text, 30)
            if v in ("sat", "unsat"):
                dis = second_solvers(text, v)
                res["second_solvers"] = {"primary": v, "disagreements": dis}
                for d in dis:
                    res["problems"].append({"what": "second solver disagrees or reports an error", **d})
    res["s"] = round(time.time() - t0, 2)
    return res
