"""Ground programs: visible/hidden atoms, relevance slicing, side condition of the fast path."""
from __future__ import annotations

import networkx as nx

SHOW_PREFIX = "#shown:"


def blits(b):
    return list(b[1]) if b[0] == "n" else [l for l, _ in b[2]]


class GP:
    """a ground program with a set of visible atoms (matched by symbol between two programs)

    vis_preds : set of (name, arity) visible signatures, or None for "every symbolic atom"
    show_terms: if True, every `#show t : cond` becomes a defined visible pseudo atom "#shown:t"
    """

    def __init__(self, g, vis_preds, show_terms=False):
        rules = []
        for c, h, b in g.rules:
            if c and len(h) > 1:
                for a in h:
                    rules.append((True, (a,), b))
            else:
                rules.append((c, h, b))
        self.minimize = list(g.minimize)
        self.edges = list(getattr(g, "edges", []))  # acyclicity constraints (#edge): act like integrity constraints
        self.sym = {a: str(s) for a, s in g.symtab.items()}
        self.sig = {a: (s.name, len(s.arguments)) for a, s in g.symtab.items()}
        self.vis = {}
        for a, s in g.symtab.items():
            if vis_preds is None or (s.name, len(s.arguments)) in vis_preds:
                self.vis[str(s)] = a
        atoms = set(self.sym)
        for c, h, b in rules:
            atoms.update(h)
            atoms.update(abs(l) for l in blits(b))
        for _, lits in self.minimize:
            atoms.update(abs(l) for l, _ in lits)
        for _, _, cond in self.edges:
            atoms.update(abs(l) for l in cond)
        nxt = max(atoms, default=0) + 1
        if show_terms:
            by_t = {}
            for s, cond in g.out_terms:
                by_t.setdefault(str(s), []).append(cond)
                atoms.update(abs(l) for l in cond)
            for t, conds in sorted(by_t.items()):
                a = nxt
                nxt += 1
                atoms.add(a)
                self.vis[SHOW_PREFIX + t] = a
                self.sym[a] = SHOW_PREFIX + t
                for cond in conds:
                    rules.append((False, (a,), ("n", tuple(cond))))
        self.rules = rules
        self.atoms = atoms
        self.sliced = 0
        self._finish()

    def _finish(self):
        self.visible = set(self.vis.values())
        self.hidden = self.atoms - self.visible
        self.by_head = {}
        for i, (c, h, b) in enumerate(self.rules):
            for a in h:
                self.by_head.setdefault(a, []).append(i)

    # ------------------------------------------------------------------ slicing
    def slice(self):
        """drop the hidden atoms nothing relevant depends on (they form a stratified top of the program
        defined by plain rules, hence extend every answer set of the rest in exactly one way)"""
        dep = nx.DiGraph()
        dep.add_nodes_from(self.atoms)
        for c, h, b in self.rules:
            for a in h:
                for l in blits(b):
                    neg = l < 0
                    if dep.has_edge(abs(l), a):
                        dep[abs(l)][a]["neg"] = dep[abs(l)][a]["neg"] or neg
                    else:
                        dep.add_edge(abs(l), a, neg=neg)
        rel = set(self.visible)
        for c, h, b in self.rules:
            if not h:
                rel.update(abs(l) for l in blits(b))
            elif c or len(h) > 1:
                rel.update(h)
        for _, lits in self.minimize:
            rel.update(abs(l) for l, _ in lits)
        for _, _, cond in self.edges:
            rel.update(abs(l) for l in cond)
        for comp in nx.strongly_connected_components(dep):
            if len(comp) == 1:
                (a,) = comp
                if not dep.has_edge(a, a) or not dep[a][a]["neg"]:
                    continue
                rel.add(a)
                continue
            if any(dep[u][v]["neg"] for u in comp for v in dep.successors(u) if v in comp):
                rel.update(comp)
        # close under "body atoms of rules whose head is relevant"
        stack = list(rel)
        while stack:
            a = stack.pop()
            for i in self.by_head.get(a, ()):
                for l in blits(self.rules[i][2]):
                    if abs(l) not in rel:
                        rel.add(abs(l))
                        stack.append(abs(l))
        dropped = self.atoms - rel
        if dropped:
            self.rules = [r for r in self.rules if not r[1] or r[1][0] in rel]
            self.atoms = rel
            self.sym = {a: s for a, s in self.sym.items() if a in rel}
            self.sliced = len(dropped)
            self._finish()
        return self

    # ------------------------------------------------------------------ SCCs
    def sccs(self, heads=None):
        """atom -> scc id for atoms in non-trivial SCCs of the positive dependency graph of the rules
        whose heads lie in `heads` (None: all rules); atoms outside `heads` are treated as inputs"""
        g = nx.DiGraph()
        for c, h, b in self.rules:
            if heads is not None and not (h and h[0] in heads):
                continue
            for a in h:
                for l in blits(b):
                    if l > 0 and (heads is None or l in heads):
                        g.add_edge(l, a)
        res = {}
        sizes = {}
        for idx, comp in enumerate(nx.strongly_connected_components(g)):
            if len(comp) > 1 or any(g.has_edge(a, a) for a in comp):
                for a in comp:
                    res[a] = idx
                sizes[idx] = len(comp)
        return res, sizes

    def head_cycle_free(self):
        scc, _ = self.sccs()
        for c, h, b in self.rules:
            if not c and len(h) > 1:
                ids = [scc[a] for a in h if a in scc]
                if len(ids) != len(set(ids)):
                    return False
        return True

    # ------------------------------------------------------------------ fast-path side condition
    def hidden_determined(self):
        """every rule has its heads all visible or all hidden, no choice/disjunctive rule has a hidden
        head, and the hidden-headed rules have no cycle through a negative edge inside the hidden atoms.
        Returns (ok, reason)."""
        H = self.hidden
        g = nx.DiGraph()
        for c, h, b in self.rules:
            hh = [a for a in h if a in H]
            if not hh:
                continue
            if len(hh) != len(h):
                return False, "rule with mixed visible/hidden head"
            if c:
                return False, "choice rule with hidden head"
            if len(h) > 1:
                return False, "disjunctive rule with hidden head"
            for l in blits(b):
                if abs(l) in H:
                    neg = l < 0
                    if g.has_edge(abs(l), hh[0]):
                        g[abs(l)][hh[0]]["neg"] = g[abs(l)][hh[0]]["neg"] or neg
                    else:
                        g.add_edge(abs(l), hh[0], neg=neg)
        for comp in nx.strongly_connected_components(g):
            for u in comp:
                for v in g.successors(u):
                    if v in comp and g[u][v]["neg"]:
                        return False, "negative cycle through hidden atoms"
        return True, ""

    def stats(self):
        return {
            "rules": len(self.rules),
            "atoms": len(self.atoms),
            "visible": len(self.visible),
            "hidden": len(self.hidden),
            "sliced_away": self.sliced,
            "minimize_lits": sum(len(l) for _, l in self.minimize),
            "acyc_edges": len(self.edges),
        }
