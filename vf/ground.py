"""Open grounding: ground a program with gringo while every possible instance atom over a bounded
universe is left open (a choice), and read the ground program back through a clingo Observer."""
from __future__ import annotations

import clingo
from clingo.ast import ProgramBuilder

SCOPE_MARKERS = ("operation undefined", "tuple ignored")


class _Obs(clingo.Observer):
    def __init__(self):
        self.rules = []  # (choice, heads, ("n", lits) | ("w", bound, ((lit, w), ...)))
        self.minimize_ = []  # (priority, ((lit, w), ...))
        self.out_atoms = []
        self.out_terms = []
        self.externals = []
        self.edges = []  # (node_u, node_v, condition literals) of #edge directives
        self.theory = 0

    def rule(self, choice, head, body):
        self.rules.append((bool(choice), tuple(head), ("n", tuple(body))))

    def weight_rule(self, choice, head, lower_bound, body):
        self.rules.append((bool(choice), tuple(head), ("w", int(lower_bound), tuple((int(l), int(w)) for l, w in body))))

    def minimize(self, priority, literals):
        self.minimize_.append((int(priority), tuple((int(l), int(w)) for l, w in literals)))

    def output_atom(self, symbol, atom):
        self.out_atoms.append((symbol, atom))

    def output_term(self, symbol, condition):
        self.out_terms.append((symbol, tuple(condition)))

    def external(self, atom, value):
        self.externals.append((atom, value))

    def acyc_edge(self, node_u, node_v, condition):
        self.edges.append((int(node_u), int(node_v), tuple(int(l) for l in condition)))

    def theory_atom(self, atom_id_or_zero, term_id, elements):
        self.theory += 1

    def theory_atom_with_guard(self, atom_id_or_zero, term_id, elements, operator_id, right_hand_side_id):
        self.theory += 1


class GroundError(Exception):
    """the program could not be grounded (parse error, unsafe variables, ...)"""


class Ground:
    """result of an open grounding"""

    def __init__(self, obs, symtab, msgs):
        self.rules = obs.rules
        self.minimize = obs.minimize_
        self.out_terms = obs.out_terms
        self.externals = obs.externals
        self.edges = obs.edges
        self.theory = obs.theory
        self.symtab = symtab  # atom -> clingo.Symbol
        self.msgs = msgs  # [(code, text)]

    def scope_msgs(self):
        return [m for _, m in self.msgs if any(k in m for k in SCOPE_MARKERS)]


def universe_of(universe, name, arity):
    """universe = {"default": [terms], "pos": {"p/2": [[terms], [terms]]}} -> list of term lists"""
    key = f"{name}/{arity}"
    pos = universe.get("pos", {}).get(key)
    if pos is not None:
        return [list(map(str, p)) for p in pos]
    d = list(map(str, universe["default"]))
    if arity >= 4 and len(d) > 2:
        d = d[:2]  # keep the number of instance atoms of wide predicates small (stated bound)
    return [list(d) for _ in range(arity)]


def open_choices(inputs, universe):
    """the only thing added to either program: one choice rule per input predicate"""
    out = []
    for name, arity in sorted(set((n, int(a)) for n, a in inputs)):
        if arity == 0:
            out.append("{ %s }." % name)
        else:
            cols = universe_of(universe, name, arity)
            out.append("{ %s(%s) }." % (name, ",".join("(%s)" % ";".join(c) for c in cols)))
    return "\n".join(out)


def n_instance_atoms(inputs, universe):
    n = 0
    for name, arity in set((n, int(a)) for n, a in inputs):
        k = 1
        for c in universe_of(universe, name, arity):
            k *= len(c)
        n += k
    return n


def ground(text=None, asts=None, inputs=(), universe=None, consts=(), extra=""):
    """ground `text` (or the AST list `asts`) together with the open instance.
    extra: additional program text appended (e.g. instance exclusions)."""
    universe = universe or {"default": ["0", "1", "2"]}
    msgs = []
    args = ["--warn=all"]
    for c in consts:
        args += ["-c", c]
    ctl = clingo.Control(args, logger=lambda c, m: msgs.append((str(c), m)), message_limit=1000)
    obs = _Obs()
    ctl.register_observer(obs, replace=False)
    tail = open_choices(inputs, universe) + "\n" + extra
    try:
        if asts is not None:
            with ProgramBuilder(ctl) as bld:
                for s in asts:
                    bld.add(s)
            ctl.add("base", [], tail)
        else:
            ctl.add("base", [], text + "\n" + tail)
        ctl.ground([("base", [])])
    except RuntimeError as e:
        raise GroundError(str(e) + " | " + " ; ".join(m for _, m in msgs[:3])) from e
    symtab = {}
    for sa in ctl.symbolic_atoms:
        symtab[sa.literal] = sa.symbol
    return Ground(obs, symtab, msgs)
