"""C07: interface predicates untouched, invented names fresh, non-rule statements passed through.
(i)  CrossHair on the real name allocators from an arbitrary allocator state (E3),
(ii) E1 translation validation on an adversarial vocabulary (source programs that already use the names ngo invents):
     a collision either changes the meaning -- the solver finds the instance -- or touches the interface,
(iii) exact syntactic comparison on every (source, result) pair produced: no new defining rule for an input predicate,
     invented head predicates disjoint from source u IN u OUT, non-rule statements verbatim and in order."""
from __future__ import annotations

import json
import os
import re
import sys
import time
from concurrent.futures import ThreadPoolExecutor

from . import astutil, evidence, kf, ngorun, pool, props
from .p_C19 import replay_call, run_condition

ROOT = os.path.dirname(os.path.dirname(os.path.abspath(__file__)))
HARNESS = os.path.join(ROOT, "vf", "ch", "c07_harness.py")
CONDITIONS = ["fresh_predicate", "fresh_aux", "fresh_variable", "anonymous_stays"]


def tasks(tier, seed):
    out = []
    for e in props.corpus_G("C07"):
        hs = [list(x) for x in props.head_sigs(e["text"])]
        mode = "show" if e.get("V") == "show" else "inout"
        outs = [e.get("out")] if mode == "show" else [hs]
        if mode != "show" and e.get("outs"):
            outs += [o for o in e["outs"] if o not in outs]  # declared outputs the program does not derive
        for o in outs:
            for cfg in ("all", "default") + ((["symmetry", "projection"], ["minmax_chains", "sum_chains"], ["duplication", "projection"], ["math", "inline"]) if tier == "thorough" else ()):
                out.append(props.base_task(dict(e, out=o, outs=None), cfg, mode, tier, costs=True))
    # the exact syntactic comparison (iii) on a broad corpus (every pair also gets the solver verdict on voc(P) u IN)
    broad = [e for e in props.corpus_T() if e["trait"] not in ("ast", "global", "dependency")] + props.corpus_D() + props.corpus_G_all(tier, 0, 5)
    for e in broad:
        hs = [list(x) for x in props.head_sigs(e["text"])]
        out.append(props.base_task(dict(e, out=hs, outs=None), "all", "inout", tier, costs=False))
        if e.get("out") is not None and e.get("out") != hs and e.get("V") != "show" and e.get("in") != "auto":
            # the declaration the program came with: predicates outside it may be removed, names must still not clash
            out.append(props.base_task(dict(e, outs=None), "all", "inout", tier, costs=False))
    return out


def run(tier, seed):
    t0 = time.time()
    timeout = 100 if tier == "quick" else 400
    ts = props.dedupe(tasks(tier, seed))
    known = kf.load()
    for t in ts:
        t["kf"] = kf.class_entries(known, t["enabled"])
        t["prop"] = "C07"
    print(f"[C07] {tier}: {len(ts)} (program, configuration) tasks + {len(CONDITIONS)} CrossHair conditions", flush=True)
    with ThreadPoolExecutor(max_workers=4) as ex:
        cond_f = [ex.submit(run_condition, c, timeout, 2, HARNESS) for c in CONDITIONS]
        results = pool.run_tasks("vf.e1:run_task", ts, workers=min(12, os.cpu_count() or 2), task_timeout=100 if tier == "quick" else 600)
        conds = [f.result() for f in cond_f]
    extra_v, harness = [], []
    # (iii)
    n_syn = 0
    for t, r in zip(ts, results):
        syn = r.get("syntactic")
        if syn is None:
            continue
        n_syn += 1
        if syn["issues"] and r["status"] not in ("violation",):
            r["status"] = "violation"
            r["reason"] = "syntactic: " + syn["issues"][0]["kind"]
            r["kind"] = "c07"
            r["counterexample"] = {"instance": "", "replay": {"status": "differ", "detail": syn["issues"][:3]}}
    # (i)
    confirmed = 0
    for c in conds:
        for v in c["verdicts"]:
            if v.startswith("Confirmed"):
                confirmed += 1
                continue
            m = re.search(r"when calling (.*?)(?: \(which returns| with|$)", v)
            if m:
                rc, out = replay_call(m.group(1).strip(), 2, "vf.ch.c07_harness")
                if rc == 1:
                    d = os.path.join(ROOT, "evidence", "replay", "C07", "alloc_" + c["condition"])
                    os.makedirs(d, exist_ok=True)
                    json.dump({"property": "C07", "kind": "c07alloc", "condition": c["condition"], "counterexample": m.group(1).strip(), "crosshair": v[:300], "replay": out}, open(os.path.join(d, "config.json"), "w"), indent=1)
                    extra_v.append(d)
                else:
                    harness.append({"id": c["condition"], "reason": "CrossHair counterexample does not reproduce: " + v[:200]})
    extra = {"crosshair_conditions": conds, "crosshair_confirmed": confirmed, "pairs_with_exact_syntactic_comparison": n_syn,
             "parts": "(i) CrossHair on UniqueNames.new_predicate / new_auxpredicate / UniqueVariables.make_unique from an arbitrary allocator state over a candidate pool; "
                      "(ii) translation validation on the adversarial-vocabulary corpus G_C07 under all/default traits; (iii) exact syntactic comparison (not a solver verdict) on every pair"}
    return props.finish_e1("C07", tier, seed, ts, results, known, t0, extra_cov=extra, extra_violations=extra_v, extra_harness=harness)


def replay(path, cfg):
    if cfg.get("kind") == "c07alloc":
        rc, out = replay_call(cfg["counterexample"], 2, "vf.ch.c07_harness")
        print(out)
        if rc == 1:
            print(f"VIOLATION property=C07 replay={path}")
        return rc
    from .e1 import syntactic_checks

    src = open(os.path.join(path, "source.lp")).read()
    r = ngorun.run_ngo(src, [tuple(x) for x in cfg["in"]], [tuple(x) for x in cfg["out"]], cfg["enabled"])
    dst = "\n".join(r["stms"])
    syn = syntactic_checks(astutil.parse(src), astutil.parse(dst), r["inp"], r["outp"], astutil.program_sigs(astutil.parse(src)))
    print(dst)
    print(json.dumps(syn, indent=1, default=str))
    if syn["issues"]:
        print(f"VIOLATION property=C07 replay={path}")
        return 1
    return 0
