"""E1 task: run the real ngo on one corpus program under one configuration and validate the translation
for all instances over (coverage-guided) bounded universes."""
from __future__ import annotations

import hashlib
import json
import os
import time

import clingo
from clingo.ast import ASTType

from . import astutil, ngorun, tv
from .ground import GroundError, ground

U3 = ["0", "1", "2"]


# --------------------------------------------------------------------------- lifting facts to inputs
def lift_facts(stms):
    """remove the statements that are ground facts of predicates defined by facts only; return
    (remaining statements as text, lifted signatures, per-position universes)"""
    facts_by_sig = {}
    others = set()
    fact_text = {}
    for s in stms:
        if s.ast_type != ASTType.Rule:
            continue
        hs = astutil.head_atom_sigs(s, positive_only=False)
        ground_ = not any(n.ast_type == ASTType.Variable for n in astutil.walk(s))
        is_fact = not s.body and ground_ and s.head.ast_type == ASTType.Literal and s.head.atom.ast_type == ASTType.SymbolicAtom
        is_choice = (not s.body and ground_ and s.head.ast_type == ASTType.Aggregate and s.head.left_guard is None and s.head.right_guard is None
                     and all(not e.condition and e.literal.atom.ast_type == ASTType.SymbolicAtom for e in s.head.elements) and len(s.head.elements) > 0)
        if is_fact:
            (sig,) = hs
            facts_by_sig.setdefault(sig, []).append(s)
            fact_text.setdefault(id(s), []).append(str(s))
        elif is_choice:
            for sig in hs:
                facts_by_sig.setdefault(sig, []).append(s)
            for e in s.head.elements:
                fact_text.setdefault((id(s), astutil.sig_of_atom(e.literal.atom)), []).append(str(e.literal) + ".")
        else:
            others |= hs
    # a choice statement can only be lifted if all its predicates are liftable
    changed = True
    while changed:
        changed = False
        for sig, fs in list(facts_by_sig.items()):
            if sig in others:
                continue
            for f in fs:
                if f.head.ast_type == ASTType.Aggregate and any(g in others for g in astutil.head_atom_sigs(f, positive_only=False)):
                    others.add(sig)
                    changed = True
                    break
    lifted = {sig: fs for sig, fs in facts_by_sig.items() if sig not in others}
    if not lifted:
        return None
    drop = {id(f) for fs in lifted.values() for f in fs}
    text = "\n".join(str(s) for s in stms if id(s) not in drop)
    pos = {}
    for sig, fs in lifted.items():
        ctl = clingo.Control(logger=lambda c, m: None)
        try:
            ctl.add("base", [], "\n".join(t for f in fs for t in (fact_text.get(id(f)) or fact_text.get((id(f), sig), []))))
            ctl.ground([("base", [])])
        except RuntimeError:
            return None
        cols = [[] for _ in range(sig[1])]
        for sa in ctl.symbolic_atoms:
            for i, a in enumerate(sa.symbol.arguments):
                if a not in cols[i]:
                    cols[i].append(a)
        cols = [[str(x) for x in sorted(c)[:3]] for c in cols]
        pos[f"{sig[0]}/{sig[1]}"] = cols
    return text, sorted(lifted), pos


# --------------------------------------------------------------------------- universes
def candidate_universes(stms, tier, extra_pos=None):
    ks = sorted(k for k in astutil.int_constants(stms))
    cands = [U3]
    big = [k for k in ks if abs(k) > 2]
    for k in big[:4]:
        for c in ([k - 1, k, k + 1], [k // 2, k // 2 + 1, k], [0, 1, k]):
            c = [str(x) for x in c]
            if c not in cands:
                cands.append(c)
    for c in (["1", "2", "3"], ["-1", "0", "2"], ["0", "1", "3"]):
        if c not in cands:
            cands.append(c)
    if tier == "thorough":
        for c in (["1", "2", "4"], ["-2", "-1", "1"], ["0", "1", "a"], ["0", "1", "2", "3"]):
            if c not in cands:
                cands.append(c)
    return [{"default": c, "pos": dict(extra_pos or {})} for c in cands]


def _cov_program(stms):
    """measuring copy: every rule / objective i gets a sibling `__cov(i) :- body_i.`"""
    out = []
    n = 0
    for s in stms:
        out.append(str(s))
        if s.ast_type == ASTType.Rule and s.body:
            out.append(f"__cov({n}) :- " + "; ".join(str(b) for b in s.body) + ".")
            n += 1
        elif s.ast_type == ASTType.Minimize and s.body:
            out.append(f"__cov({n}) :- " + "; ".join(str(b) for b in s.body) + ".")
            n += 1
    return "\n".join(out), n


def coverage(stms, opens, universe, consts):
    text, n = _cov_program(stms)
    if n == 0:
        return 0, 0
    try:
        g = ground(text=text, inputs=opens, universe=universe, consts=consts)
    except GroundError:
        return -1, n
    hit = {str(s) for s in g.symtab.values() if s.name == "__cov"}
    return len(hit), n


def pick_universes(src_stms, dst_stms, opens, consts, tier, extra_pos, want):
    scored = []
    cands = candidate_universes(src_stms, tier, extra_pos)
    if tier == "quick":
        cands = cands[:5]
    for u in cands:
        ca, na = coverage(src_stms, opens, u, consts)
        cb, nb = coverage(dst_stms, opens, u, consts)
        if ca < 0:
            continue
        scored.append((-(ca + max(cb, 0)), len(scored), u, (ca, na, cb, nb)))
    scored.sort(key=lambda x: (x[0], x[1]))
    out = []
    for sc, _, u, cov in scored:
        if len(out) >= want:
            break
        if len(out) == 1 and want >= 2 and not any(abs(k) > 2 for k in astutil.int_constants(src_stms)):
            # without larger constants in the program (their neighbourhoods come first among the candidates) the second
            # universe is the best one with a negative value (sign-sensitive code: #sum+, |x|, x/2, x*x)
            neg = [(s2, u2, c2) for s2, _, u2, c2 in scored if any(v.startswith("-") for v in u2["default"]) and u2 is not out[0][0]]
            if neg and neg[0][0] <= scored[0][0] + 2:
                out.append((neg[0][1], neg[0][2]))
                continue
        if all(u is not o[0] for o in out):
            out.append((u, cov))
    return out


# --------------------------------------------------------------------------- the task
def task_id(task):
    key = json.dumps({k: task.get(k) for k in ("text", "in", "out", "enabled", "V", "consts", "lift", "open_all")}, sort_keys=True)
    return hashlib.sha1(key.encode()).hexdigest()[:12]


def run_task(task):
    """task keys: id, text, in (list|None|'auto'), out (list|None|'auto'), enabled (list|'default'|'all'|'none'),
    V ('voc'|'inout'|'show'), costs, one_to_one, tier, consts, lift, open_all, timeout, n_universes"""
    t0 = time.time()
    tier = task.get("tier", "quick")
    res = {"task": task_id(task), "id": task.get("id"), "enabled": task.get("enabled"), "status": None}
    text = task["text"]
    consts = tuple(task.get("consts", ()))
    try:
        stms = astutil.parse(text)
    except RuntimeError as e:
        res.update(status="skip", reason="source does not parse: " + str(e)[:100])
        return res
    bad = astutil.symbolic_constants_in_arithmetic(stms, consts)
    if bad:
        res.update(status="skip", reason="source applies arithmetic to the symbolic constant(s) %s (outside every property: arithmetic on integers only)" % sorted(bad))
        return res
    extra_pos = dict(task.get("universe_pos") or {})
    lifted = []
    if task.get("lift"):
        lf = lift_facts(stms)
        if lf is None:
            res.update(status="skip", reason="nothing to lift")
            return res
        text, lifted, pos = lf
        extra_pos.update(pos)
        stms = astutil.parse(text)
    declared_in = task.get("in")
    auto = declared_in == "auto"
    if auto:
        inp_arg = "auto"
    else:
        ins = set(tuple(x) for x in (declared_in or []))
        ins |= astutil.undefined_sigs(stms)
        ins |= set(tuple(x) for x in lifted)
        ins |= astutil.underivable_sigs(stms, ins)
        inp_arg = sorted(ins)
    out_arg = task.get("out")
    if out_arg is None:
        out_arg = []
    try:
        r = ngorun.run_ngo(text, inp_arg, out_arg if out_arg == "auto" else [tuple(x) for x in out_arg], task["enabled"])
    except Exception as e:  # noqa
        res.update(status="not_explored", reason=f"optimize raised {type(e).__name__}: {str(e)[:120]}")
        return res
    res["t_ngo"] = round(time.time() - t0, 3)
    dst = "\n".join(r["stms"])
    src_norm = text
    res["source"] = text
    res["result"] = dst
    inp = r["inp"]
    outp = r["outp"]
    res["in"] = inp
    res["out"] = outp
    if auto and not astutil.undefined_sigs(stms) <= set(inp):
        res.update(status="skip", reason="auto-detected IN misses an undefined predicate (precondition of the property)")
        return res
    try:
        if not any(ngorun.flags_of(task["enabled"]).values()):
            # all traits off: non-trivial = the normal form differs from the parsed source
            res["changed"] = [str(s) for s in stms if s.ast_type != ASTType.Program] != [x for x in r["stms"] if not x.startswith("#program")]
        else:
            base = ngorun.run_ngo(text, inp, outp, "none")
            res["changed"] = "\n".join(base["stms"]) != dst
    except Exception:  # noqa
        res["changed"] = True
    voc_src = astutil.program_sigs(stms)
    try:
        dst_stms = astutil.parse(dst)
    except RuntimeError as e:
        res.update(status="violation", reason="result does not parse: " + str(e)[:200],
                   counterexample={"instance": "", "replay": {"status": "differ", "detail": {"result_error": str(e)[:200]}}})
        return res
    voc_dst = astutil.program_sigs(dst_stms)
    mode = task.get("V", "voc")
    show_terms = False
    vplus = None
    if mode == "voc":
        V = voc_src | set(inp)
    elif mode == "inout":
        V = set(inp) | set(outp)
        vplus = (voc_src & voc_dst) | V
    elif mode == "show":
        V = set(inp) | set(outp)
        show_terms = True
        vplus = (voc_src & voc_dst) | V
    else:
        raise ValueError(mode)
    opens = sorted(voc_src) if task.get("open_all") else inp
    if task.get("c04"):
        return c04_task(task, res, text, stms, dst, dst_stms, r, inp, consts, tier, extra_pos, t0)
    res["V"] = sorted(V)
    res["one_to_one"] = task.get("one_to_one", False)
    res["costs"] = task.get("costs", True)
    res["consts"] = list(consts)
    res["syntactic"] = syntactic_checks(stms, dst_stms, inp, outp, voc_src)
    # ---- universes
    want = task.get("n_universes", 1 if tier == "quick" else 2)
    unis = pick_universes(stms, dst_stms, opens, consts, tier, extra_pos, want)
    if not unis:
        res.update(status="skip", reason="source does not ground over any candidate universe (unsafe fragment?)")
        return res
    timeout = task.get("timeout", 12 if tier == "quick" else 60)
    res["decided"] = []
    worst = None
    for u, cov in unis:
        cur = u
        while True:
            out = tv.check_pair(text, dst, inp, V, cur, consts=consts, costs=task.get("costs", True), one_to_one=task.get("one_to_one", False),
                                show_terms=show_terms, timeout=timeout, vplus=vplus, open_preds=opens, extra=task.get("extra", ""),
                                dst_asts=r["asts"] if task.get("via_ast") else None, kf_classes=task.get("kf", ()))
            out["coverage(src_hit,src_rules,dst_hit,dst_rules)"] = cov
            slow = any(q.get("verdict") in ("timeout", "unknown") for q in out["queries"]) or out.get("too_big")
            if out["status"] == "inconclusive" and slow:
                nxt = tv.shrink_universe(cur)
                if nxt is not None:
                    out["shrunk_from"] = cur
                    cur = nxt
                    continue
            break
        res["decided"].append(out)
        if out["status"] in ("violation", "harness_error"):
            worst = out
            break
    res["known_findings"] = sorted({k for d in res["decided"] for k in d.get("known_findings", [])})
    sts = [d["status"] for d in res["decided"]]
    if worst is not None:
        res["status"] = worst["status"]
        res["reason"] = worst.get("reason")
        res["counterexample"] = worst.get("counterexample")
        res["cex_universe"] = worst.get("universe")
    elif "held" in sts:
        res["status"] = "held"
        if any(s == "inconclusive" for s in sts):
            res["partial"] = True
    elif "inconclusive" in sts:
        res["status"] = "inconclusive"
        res["reason"] = "; ".join(str(d.get("reason")) for d in res["decided"])[:300]
    else:
        res["status"] = "skip"
        res["reason"] = "; ".join(str(d.get("reason")) for d in res["decided"])[:300]
    res["wall_s"] = round(time.time() - t0, 3)
    return res


# --------------------------------------------------------------------------- exact syntactic comparisons (C07 iii, C09)
PASS_THROUGH = None


def syntactic_checks(src_stms, dst_stms, inp, outp, voc_src):
    """exact comparisons on the concrete pair (no solver involved): new heads over inputs, freshness of
    invented head predicates, pass-through of non-rule statements"""
    issues = []
    ins = set(inp)
    heads_src = set()
    heads_dst = set()
    for s in src_stms:
        heads_src |= astutil.head_atom_sigs(s, positive_only=False)
    for s in dst_stms:
        heads_dst |= astutil.head_atom_sigs(s, positive_only=False)
    new_in_heads = (heads_dst & ins) - heads_src
    if new_in_heads:
        issues.append({"kind": "input predicate received a defining rule", "preds": sorted(new_in_heads)})
    taken = set(voc_src) | ins | set(outp)
    keep = lambda s: s.ast_type not in (ASTType.Rule, ASTType.Minimize, ASTType.Program)  # noqa
    a = [str(s) for s in src_stms if keep(s)]
    b = [str(s) for s in dst_stms if keep(s)]
    if a != b:
        issues.append({"kind": "non-rule statements not passed through verbatim in order", "source": a[:5], "result": b[:5]})
    return {"issues": issues, "invented_heads": sorted(heads_dst - taken)}


# --------------------------------------------------------------------------- C04: result valid, safe, printed form faithful
def c04_task(task, res, text, stms, dst, dst_stms, r, inp, consts, tier, extra_pos, t0):
    """(a) every returned AST is accepted by ProgramBuilder and the result grounds (AST path and text path) whenever
    the source grounds; (b) str(parse(str(s))) == str(s); (c) AST path == text path for all instances (solver)"""
    unis = pick_universes(stms, dst_stms, inp, consts, tier, extra_pos, 1)
    if not unis:
        res.update(status="skip", reason="source does not ground over any candidate universe (unsafe fragment?)")
        return res
    u, cov = unis[0]
    problems = []
    # (b) printed form is a fixpoint of parse/print
    for s_ast, s_txt in zip(r["asts"], r["stms"]):
        try:
            back = [str(x) for x in astutil.parse(s_txt)][1:]  # the parser always emits an implicit `#program base.` first
        except RuntimeError as e:
            problems.append({"kind": "statement does not parse back", "stm": s_txt, "err": str(e)[:100]})
            continue
        if back != [s_txt]:
            problems.append({"kind": "print/parse round trip changes the text", "stm": s_txt, "back": back[:3]})
    # (a) acceptance + safety on both paths
    for path, kw in (("ast", {"asts": r["asts"]}), ("text", {"text": dst})):
        try:
            ground(inputs=inp, universe=u, consts=consts, **kw)
        except GroundError as e:
            problems.append({"kind": f"result rejected by clingo on the {path} path", "err": str(e)[:300]})
        except Exception as e:  # noqa
            problems.append({"kind": f"ProgramBuilder rejected a statement on the {path} path", "err": f"{type(e).__name__}: {e}"[:300]})
    res["c04_problems"] = problems
    if problems:
        res.update(status="violation", reason=problems[0]["kind"], counterexample={"instance": "", "replay": {"status": "differ", "detail": problems[:3]}})
        res["kind"] = "c04"
        return res
    V = astutil.program_sigs(dst_stms) | set(inp)
    res["V"] = sorted(V)
    out = tv.check_pair(dst, dst, inp, V, u, consts=consts, costs=True, one_to_one=True, timeout=task.get("timeout", 12 if tier == "quick" else 60),
                        dst_asts=r["asts"], open_preds=inp)
    out["coverage(src_hit,src_rules,dst_hit,dst_rules)"] = cov
    res["decided"] = [out]
    res["status"] = out["status"]
    res["reason"] = out.get("reason")
    if out["status"] == "violation":
        res["counterexample"] = out.get("counterexample")
        res["kind"] = "c04"
    res["source_program"] = text
    res["source"] = dst
    res["wall_s"] = round(time.time() - t0, 3)
    return res
