"""Known findings: genuine ngo defects that are recorded instead of repaired (see DESIGN.md section 2.8).

/verif/known_findings.json is read-only at run time.  An entry identifies a defect by the specific input
(source program + trait that must be enabled + hash of the text ngo produced) or by a class signature
evaluated on the replayed counterexample.  `fixed` entries suppress nothing."""
from __future__ import annotations

import hashlib
import json
import os
import re

PATH = os.path.join(os.path.dirname(os.path.dirname(os.path.abspath(__file__))), "known_findings.json")


def sha(text):
    return hashlib.sha1(" ".join(text.split()).encode()).hexdigest()[:12]


def load():
    if not os.path.exists(PATH):
        return []
    data = json.load(open(PATH))
    return [e for e in data.get("findings", []) if e.get("status") == "open"]


def enabled_set(enabled):
    from .ngorun import flags_of

    return {t for t, v in flags_of(enabled).items() if v}


def match_input(entry, source, enabled, result):
    """input-identified finding: same source program, the culprit trait(s) enabled, and ngo produced text that
    still contains the recorded faulty statement(s)"""
    m = entry["match"]
    if m.get("type") != "input":
        return False
    if sha(source) != m["source_sha"]:
        return False
    if not set(m.get("needs_traits", [])) <= enabled_set(enabled):
        return False
    if set(m.get("forbids_traits", [])) & enabled_set(enabled):
        return False
    norm = " ".join(result.split())
    if m.get("result_contains_any") and not any(" ".join(frag.split()) in norm for frag in m["result_contains_any"]):
        return False
    return all(" ".join(frag.split()) in norm for frag in m.get("result_contains", []))


def class_entries(entries, enabled):
    return [e for e in entries if e["match"].get("type") == "class" and set(e["match"].get("needs_traits", [])) <= enabled_set(enabled)]


def class_regexes(entry):
    return [re.compile(r) for r in entry["match"]["nonempty_result_preds"]]


def match_program(entry, source, enabled):
    """program-identified finding: a syntactic pattern of the SOURCE program plus required traits; a violation on such a
    program is attributed to the finding as a whole (documented masking: other violations in these programs are not
    told apart)"""
    from . import astutil

    m = entry["match"]
    if m.get("type") != "program":
        return False
    if not set(m.get("needs_traits", [])) <= enabled_set(enabled):
        return False
    try:
        return bool(astutil.PROGRAM_PATTERNS[m["pattern"]](astutil.parse(source)))
    except RuntimeError:
        return False
