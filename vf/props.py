"""Property drivers: task lists per property and tier, the generic E1 driver, evidence and exit codes."""
from __future__ import annotations

import hashlib
import json
import os
import random
import sys
import time

from . import e1, evidence, kf, pool
from .ngorun import DEFAULT, TRAITS

ROOT = os.path.dirname(os.path.dirname(os.path.abspath(__file__)))
CORPUS = os.path.join(ROOT, "corpus")

AUX_ONLY = ["cleanup", "duplication", "symmetry", "minmax_chains", "sum_chains", "math", "projection"]

SINGLE = {
    "C08": dict(trait="cleanup", V="voc", one_to_one=False),
    "C09": dict(trait="unused", V="inout", one_to_one=False),
    "C10": dict(trait="duplication", V="voc", one_to_one=True),
    "C11": dict(trait="symmetry", V="voc", one_to_one=False),
    "C12": dict(trait="minmax_chains", V="voc", one_to_one=False),
    "C13": dict(trait="sum_chains", V="voc", one_to_one=False),
    "C14": dict(trait="math", V="voc", one_to_one=False),
    "C15": dict(trait="inline", V="inout", one_to_one=False),
    "C16": dict(trait="projection", V="voc", one_to_one=True),
}


def load(name):
    p = os.path.join(CORPUS, name + ".json")
    if not os.path.exists(p):
        return []
    return json.load(open(p))


def corpus_T(traits=None):
    return [e for e in load("T") if traits is None or e["trait"] in traits]


def corpus_G(prop):
    return load("G_" + prop)


def corpus_D(prop=None):
    """programs (with instance-derived universes) of the demonstrations of the seeded changes; for a single-pass
    property only the ones written for that property or for a whole-pipeline property"""
    if os.environ.get("VF_NO_D"):  # development switch: measure what the other corpora catch on their own
        return []
    es = [dict(e, outs=None) for e in load("D") if e.get("prop") not in ("C18", "C19")]
    if prop is not None:
        es = [e for e in es if e.get("prop") in (prop, "C01", "C02", "C04", "C06", "C07", "C20")]
    return es


FAM_TRAIT = {"C08": "cleanup", "C09": "unused", "C10": "duplication", "C11": "symmetry", "C12": "minmax_chains", "C13": "sum_chains",
             "C14": "math", "C15": "inline", "C16": "projection"}
G_PASS_FAMILIES = ["C05", "C08", "C09", "C10", "C11", "C12", "C13", "C14", "C15", "C16"]


def corpus_G_all(tier, seed, stride=3, skip=()):
    """the generated families of all single-pass properties; quick: every stride-th program (offset by the seed)"""
    out = []
    for fam in G_PASS_FAMILIES:
        if fam in skip:
            continue
        es = corpus_G(fam)
        if tier == "quick":
            es = es[seed % stride::stride]
        out += es
    return out


# ------------------------------------------------------------------------------------------- task lists
def base_task(e, enabled, V, tier, **kw):
    t = {"id": e["id"], "text": e["text"], "in": e.get("in"), "out": e.get("out"), "enabled": enabled, "V": V, "tier": tier,
         "consts": e.get("consts", []), "universe_pos": e.get("universe_pos"), "costs": True}
    t.update(kw)
    return t


def head_sigs(text):
    from . import astutil

    try:
        return sorted(astutil.defined_sigs(astutil.parse(text)))
    except RuntimeError:
        return []


def tasks_single(prop, tier, seed):
    cfg = SINGLE[prop]
    tr = cfg["trait"]
    tasks = []
    entries = corpus_T([tr]) + corpus_G(prop) + corpus_D(prop)
    from . import variants

    # thorough sample sizes are set so that one thorough run stays around an hour (C15 has many slow-path queries)
    n_thorough = {"C15": 1500, "C09": 4000}.get(prop, 6000)
    entries = entries + variants.variant_corpus(entries, 16 if tier == "quick" else 60, 700 if tier == "quick" else n_thorough, salt=prop)
    if tier == "thorough":
        entries += [e for e in corpus_T() if e["trait"] not in (tr, "ast", "global")]
    for e in entries:
        mode = e.get("V", cfg["V"])
        if e.get("outs") is not None:
            outs = e["outs"]
        else:
            outs = [e.get("out")]
            if cfg["V"] == "inout" and mode != "show":
                hs = [list(x) for x in head_sigs(e["text"])]
                outs = [e.get("out") if e.get("out") is not None else hs]
                if e.get("out") is None or tier == "thorough":
                    outs += [o for o in ([], hs) if o not in outs]
        for o in outs:
            tasks.append(base_task(dict(e, out=o), [tr], mode, tier, one_to_one=cfg["one_to_one"]))
            if e["id"].startswith("T-"):
                tasks.append(base_task(dict(e, out=o, id=e["id"] + "-L"), [tr], mode, tier, one_to_one=cfg["one_to_one"], lift=True))
    return tasks


def tasks_C05(tier, seed):
    tasks = []
    entries = corpus_T(["none"]) + corpus_G("C05") + corpus_D("C05")
    from . import variants

    entries = entries + variants.variant_corpus(entries, 10 if tier == "quick" else 60, 300 if tier == "quick" else 3000, salt="C05")
    entries += [e for e in corpus_T() if e["trait"] not in ("none", "global")] if tier == "thorough" else [e for e in corpus_T(["regression", "ast", "dependency", "math", "minmax_chains", "inline"])]
    for e in entries:
        tasks.append(base_task(dict(e, out=[]), "none", "voc", tier, one_to_one=True, open_all=True))
    return tasks


def tasks_C06(tier, seed):
    rnd = random.Random(seed)
    tasks = []
    for e in corpus_T(AUX_ONLY + ["regression"]) + corpus_G("C06") + corpus_D() + [e for e in corpus_G("C01") if e.get("V") != "show"] + corpus_G("C16") + corpus_G_all(tier, 0, 3, skip=("C09", "C15", "C05", "C16")):
        cfgs = [AUX_ONLY]
        tr = e.get("trait") or FAM_TRAIT.get(e.get("prop") or e["id"].split("-")[1])
        if tr in AUX_ONLY:
            rest = [t for t in AUX_ONLY if t != tr]
            cfgs.append(sorted([tr] + rnd.sample(rest, 2)))
        if tier == "thorough":
            for _ in range(4):
                k = rnd.randint(2, 6)
                cfgs.append(sorted(rnd.sample(AUX_ONLY, k)))
        for c in cfgs:
            tasks.append(base_task(dict(e, out=[]), c, "voc", tier, one_to_one=True))
    from . import variants

    for e in variants.variant_corpus(corpus_G_all("thorough", 0, 1, skip=("C09", "C15", "C05")) + corpus_D(), 12 if tier == "quick" else 40,
                                     250 if tier == "quick" else 2500, salt="C06"):
        tasks.append(base_task(dict(e, out=[], outs=None), AUX_ONLY, "voc", tier, one_to_one=True))
    return tasks


def tasks_C01(tier, seed, only_opt=False, costs=False):
    rnd = random.Random(seed)
    tasks = []
    core = [e for e in corpus_T() if e["trait"] not in ("ast", "global", "dependency")] + corpus_G("C01") + corpus_D()
    wide = corpus_G_all(tier, 0, 4)
    if only_opt:
        has_opt = lambda e: ":~" in e["text"] or "#minimi" in e["text"] or "#maximi" in e["text"]  # noqa
        core = [e for e in corpus_T() + corpus_G("C02") + corpus_G("C01") + corpus_D() if has_opt(e)]
        wide = [e for f in ("C11", "C12", "C13", "C15", "C09", "C10", "C14", "C08") for e in corpus_G(f) if has_opt(e)]
    n_core = len(core)
    for i, e in enumerate(core + wide):
        hs = [list(x) for x in head_sigs(e["text"])]
        cfgs = ["default", "all"] if (i < n_core or tier == "thorough") else ["default" if i % 2 else "all"]
        if tier == "thorough":
            if i < n_core:
                cfgs += [[t] for t in TRAITS] + [sorted(rnd.sample(TRAITS, rnd.randint(2, 7))) for _ in range(3)]
            else:
                cfgs += [sorted(rnd.sample(TRAITS, rnd.randint(2, 7)))]
        for c in cfgs:
            tasks.append(base_task(dict(e, out=hs, outs=None), c, "inout", tier, costs=costs))
            if c == "default" or (tier == "thorough" and c == "all"):
                tasks.append(base_task(dict(e, **{"in": "auto", "out": "auto", "outs": None}), c, "show", tier, costs=costs))
            if tier == "thorough" and hs and c in ("default", "all") and i < n_core:
                tasks.append(base_task(dict(e, out=[rnd.choice(hs)], outs=None), c, "inout", tier, costs=costs))
                tasks.append(base_task(dict(e, out=[], outs=None), c, "inout", tier, costs=costs))
    from . import variants

    vsrc = [e for e in core if not e["id"].startswith("T-")] + (wide if only_opt else corpus_G_all("thorough", 0, 1))
    for j, e in enumerate(variants.variant_corpus(vsrc, 12 if tier == "quick" else 40, (150 if only_opt else 250) * (1 if tier == "quick" else 10),
                                                  salt="C02" if only_opt else "C01")):
        if only_opt and not has_opt(e):
            continue
        hs = [list(x) for x in head_sigs(e["text"])]
        for c in (["default"] if tier == "quick" else ["default", "all"]):
            tasks.append(base_task(dict(e, out=hs, outs=None), c, "inout", tier, costs=costs))
    return tasks


def tasks_C04(tier, seed):
    tasks = []
    entries = [e for e in corpus_T() if e["trait"] not in ("ast", "global", "dependency")] + corpus_G("C04") + corpus_D() + corpus_G_all(tier, 0, 3)
    for e in entries:
        hs = [list(x) for x in head_sigs(e["text"])]
        tr = e.get("trait") or FAM_TRAIT.get(e.get("prop") or e["id"].split("-")[1])
        cfgs = ["all"] + ([[tr]] if tr in TRAITS else []) + (["default"] if not e["id"].startswith("T-") else [])
        if tier == "thorough":
            cfgs += ["default", "none"]
        for c in cfgs:
            tasks.append(base_task(dict(e, out=hs, outs=None), c, "voc", tier, c04=True))
    from . import variants

    for e in variants.variant_corpus(corpus_G_all("thorough", 0, 1) + corpus_D(), 12 if tier == "quick" else 40, 500 if tier == "quick" else 5000, salt="C04"):
        hs = [list(x) for x in head_sigs(e["text"])]
        for c in (["all"] if tier == "quick" else ["all", "default"]):
            tasks.append(base_task(dict(e, out=hs, outs=None), c, "voc", tier, c04=True))
    return tasks


def tasks_for(prop, tier, seed):
    if prop in SINGLE:
        return tasks_single(prop, tier, seed)
    if prop == "C05":
        return tasks_C05(tier, seed)
    if prop == "C06":
        return tasks_C06(tier, seed)
    if prop == "C01":
        return tasks_C01(tier, seed)
    if prop == "C02":
        return tasks_C01(tier, seed, only_opt=True, costs=True)
    if prop == "C04":
        return tasks_C04(tier, seed)
    raise KeyError(prop)


# ------------------------------------------------------------------------------------------- the E1 driver
def dedupe(tasks):
    seen, out = set(), []
    for t in tasks:
        k = json.dumps({k: t.get(k) for k in ("text", "in", "out", "enabled", "V", "lift", "open_all", "costs", "c04")}, sort_keys=True)
        if k not in seen:
            seen.add(k)
            out.append(t)
    return out


def run_e1(prop, tier, seed, tasks=None, fn="vf.e1:run_task", level_note=None):
    t0 = time.time()
    tasks = dedupe(tasks if tasks is not None else tasks_for(prop, tier, seed))
    known = kf.load()
    for t in tasks:
        t["kf"] = kf.class_entries(known, t["enabled"])
        t["prop"] = prop
    n = len(tasks)
    print(f"[{prop}] {tier}: {n} (program, configuration) tasks", flush=True)
    last = [time.time()]

    def progress(done, total, res):
        if time.time() - last[0] > 30:
            last[0] = time.time()
            print(f"[{prop}] {done}/{total} done, {time.time()-t0:.0f}s", flush=True)

    results = pool.run_tasks(fn, tasks, workers=min(15, os.cpu_count() or 2), task_timeout=60 if tier == "quick" else 300, progress=progress)
    st, harness = selftest(prop, tier, seed, results)
    return finish_e1(prop, tier, seed, tasks, results, known, t0, extra_cov={"encoder_selftest": st}, extra_harness=harness)


def selftest(prop, tier, seed, results):
    """encoder validation against clingo, sabotage twins and second solvers on a seeded sample of the decided pairs"""
    rnd = random.Random(seed * 7919 + 13)
    cands = [r for r in results if r.get("status") == "held" and r.get("changed") and r.get("source") and r.get("result") and r.get("decided")
             and not r.get("source_program") and (r["decided"][0].get("sizes", {}).get("A", {}).get("rules", 9999) < 300)
             and (r["decided"][0].get("sizes", {}).get("B", {}).get("rules", 9999) < 400)]
    rnd.shuffle(cands)
    n = 8 if tier == "quick" else 60
    ts = [{"id": r.get("id"), "source": r["source"], "result": r["result"], "in": r["in"], "V": r["V"], "universe": r["decided"][0]["universe"], "seed": seed + i}
          for i, r in enumerate(cands[:n])]
    if not ts:
        return {"pairs": 0}, []
    out = pool.run_tasks("vf.selftest:run_task", ts, workers=min(8, len(ts)), task_timeout=150)
    problems = [dict(p, id=o.get("id")) for o in out for p in o.get("problems", [])]
    tw = {}
    for o in out:
        for t in o.get("twins", []):
            tw[t["status"]] = tw.get(t["status"], 0) + 1
    summary = {"pairs": len(ts), "encoder_validation_instances(clingo vs SMT enumeration)": sum(o.get("encoder_instances", 0) for o in out),
               "sabotage_twins": tw, "second_solver_checks": sum(1 for o in out if o.get("second_solvers")),
               "problems": problems[:5], "skipped_or_timed_out": sum(1 for o in out if o.get("status") != "done")}
    harness = [{"id": p.get("id"), "reason": "encoder self-test: " + p["what"] + " " + str({k: v for k, v in p.items() if k not in ("what", "id")})[:300]} for p in problems]
    return summary, harness


def finish_e1(prop, tier, seed, tasks, results, known, t0, extra_cov=None, extra_violations=(), extra_harness=()):
    violations, known_hits, harness = [], {}, list(extra_harness)
    for t, r in zip(tasks, results):
        r.setdefault("id", t.get("id"))
        r.setdefault("enabled", t.get("enabled"))
        if r.get("id") is None:
            r["id"] = t.get("id")
        r["_task"] = {k: t.get(k) for k in ("id", "enabled", "V", "lift", "open_all", "in", "out")}
        for kid in r.get("known_findings", []) or [d_k for d in r.get("decided", []) for d_k in d.get("known_findings", [])]:
            known_hits.setdefault(kid, []).append(r)
        if r["status"] == "violation":
            hit = None
            for e in known:
                if kf.match_input(e, r.get("source", t["text"]), t["enabled"], r.get("result", "")):
                    hit = e
                    break
            if hit is None:
                for e in known:
                    if not kf.match_program(e, r.get("source", t["text"]), t["enabled"]):
                        continue
                    if e["match"].get("reason_contains") and not any(x in (r.get("reason") or "") for x in e["match"]["reason_contains"]):
                        continue
                    if not e["match"].get("needs_traits"):
                        hit = e  # a defect of the normal form itself: there is no trait to switch off
                        break
                    # a program-identified finding names the trait that causes it: the violation is attributed to it only
                    # if it disappears when that trait is switched off (otherwise something else is wrong as well)
                    rest = sorted(kf.enabled_set(t["enabled"]) - set(e["match"].get("needs_traits", [])))
                    try:
                        r2 = e1.run_task(dict(t, enabled=rest))
                    except Exception as exc:  # noqa
                        r2 = {"status": "error", "reason": str(exc)}
                    r["ablation"] = {"finding": e["id"], "enabled": rest, "status": r2["status"]}
                    if r2["status"] == "violation":
                        hit = next((k for k in known if kf.match_input(k, r2.get("source", t["text"]), rest, r2.get("result", ""))), None)
                        if hit is None:
                            continue  # not this finding: try the remaining program-identified ones
                    else:
                        hit = e
                    break
            if hit is not None:
                known_hits.setdefault(hit["id"], []).append(r)
                r["status"] = "known_finding"
                r["finding"] = hit["id"]
            else:
                violations.append(r)
        elif r["status"] == "harness_error":
            harness.append(r)
    by_id = {e["id"]: e for e in known}
    for kid, rs in sorted(known_hits.items()):
        e = by_id.get(kid, {})
        print(f"KNOWN-FINDING: property={prop} {kid}: {e.get('what', '')} [{len(rs)} pair(s) in this run]")
    paths = []
    for r in violations:
        path = write_replay(prop, r)
        paths.append(path)
        print(f"VIOLATION property={prop} replay={path}")
    for v in extra_violations:
        print(f"VIOLATION property={prop} replay={v}")
    ev = evidence.e1_evidence(prop, tier, seed, tasks, results, violations, known_hits, harness, time.time() - t0, extra_cov)
    evidence.write(prop, ev)
    decided = sum(1 for r in results if r["status"] in ("held", "violation", "known_finding"))
    print(f"[{prop}] decided {decided}/{len(results)} pairs; violations {len(violations) + len(extra_violations)}; known {sum(len(v) for v in known_hits.values())}; "
          f"inconclusive {sum(1 for r in results if r['status'] == 'inconclusive')}; harness errors {len(harness)}; wall {time.time()-t0:.0f}s", flush=True)
    if os.environ.get("VERIF_DEBUG"):
        for r in sorted(results, key=lambda r: -r.get("wall_s", 0))[:8]:
            print("  slow:", r.get("id"), r.get("enabled"), r.get("status"), r.get("wall_s"), (r.get("reason") or "")[:80])
    if violations or extra_violations:
        return 1
    if harness:
        for h in harness[:5]:
            print("HARNESS-ERROR", prop, h.get("id"), h.get("reason"), file=sys.stderr)
        return 3
    if decided == 0:
        print("nothing was decided", file=sys.stderr)
        return 3
    return 0


def write_replay(prop, r):
    key = hashlib.sha1((r.get("source", "") + json.dumps(r["_task"], sort_keys=True, default=str)).encode()).hexdigest()[:12]
    d = os.path.join(ROOT, "evidence", "replay", prop, key)
    os.makedirs(d, exist_ok=True)
    cex = r.get("counterexample") or {}
    open(os.path.join(d, "source.lp"), "w").write(r.get("source", ""))
    open(os.path.join(d, "result.lp"), "w").write(r.get("result", ""))
    open(os.path.join(d, "instance.lp"), "w").write(cex.get("instance", "") + "\n")
    json.dump({"property": prop, "in": r.get("in"), "out": r.get("out"), "enabled": r["_task"]["enabled"], "V": r.get("V"), "mode": r["_task"]["V"],
               "fix": cex.get("fix"), "one_to_one": r.get("one_to_one", False), "costs": r.get("costs", True), "consts": r.get("consts", []),
               "reason": r.get("reason"), "universe": r.get("cex_universe"), "replay": cex.get("replay"), "kind": r.get("kind", "e1")},
              open(os.path.join(d, "config.json"), "w"), indent=1, default=str)
    return d


def run(prop, tier, seed):
    if prop in SINGLE or prop in ("C01", "C02", "C04", "C05", "C06"):
        return run_e1(prop, tier, seed)
    mod = __import__("vf.p_" + prop, fromlist=["run"])
    return mod.run(tier, seed)
