"""Template expansion for the generated corpus families (G): `[[n:alt1|alt2|..]]` slots, equal names choose together."""
from __future__ import annotations

import hashlib
import itertools
import re

SLOT = re.compile(r"\[\[(?:(\w+):)?([^\[\]]*)\]\]")


def expand(template, cap=400, rnd=None):
    slots = {}
    order = []
    anon = 0

    def scan(m):
        nonlocal anon
        name, alts = m.group(1), m.group(2)
        if name is None:
            if "|" not in alts and alts in slots:
                return f"\x00{alts}\x00"
            name = f"_anon{anon}"
            anon += 1
        if name not in slots:
            slots[name] = alts.split("|")
            order.append(name)
        return f"\x00{name}\x00"

    skeleton = SLOT.sub(scan, template)
    combos = itertools.product(*[range(len(slots[n])) for n in order])
    combos = list(combos)
    if cap is not None and len(combos) > cap:
        import random

        r = rnd or random.Random(0)
        combos = r.sample(combos, cap)
    out = []
    for c in combos:
        text = skeleton
        for n, i in zip(order, c):
            text = text.replace(f"\x00{n}\x00", slots[n][i])
        out.append(text)
    return out


def family(prop, templates, cap=400):
    """templates: list of (tag, template, extra dict) -> corpus entries"""
    entries = []
    seen = set()
    for tag, tpl, extra in templates:
        for text in expand(tpl, cap):
            text = text.strip()
            if text in seen:
                continue
            seen.add(text)
            e = {"id": f"G-{prop}-{tag}-{hashlib.sha1(text.encode()).hexdigest()[:6]}", "text": text, "in": None, "out": None}
            e.update(extra or {})
            entries.append(e)
    return entries
