"""C18: auto_detect_input / auto_detect_output.

E2 (DESIGN.md section 4): the SOURCE of the two functions (read with inspect/ast from /repo on every run) is executed by
a small guarded symbolic interpreter over finite sets with symbolic membership.  A program is abstracted to: n statements,
each of a symbolic type, and free Booleans occ[s,k,p] = "predicate p of the pool occurs at a position of kind k in
statement s".  The per-node-kind collectors the functions call are replaced by stubs driven by a 0/1 table that is
EXTRACTED from the real collectors on one-marker probe statements on every run.  z3 decides the three clauses of the
property over all occupancies; every sat model -- and a seeded sample of arbitrary models, to validate the abstraction --
is turned into a real program and pushed through the real functions."""
from __future__ import annotations

import ast as pyast
import inspect
import itertools
import json
import os
import random
import sys
import textwrap
import time

ROOT = os.path.dirname(os.path.dirname(os.path.abspath(__file__)))


class HarnessError(Exception):
    pass


# --------------------------------------------------------------------------------------------- position kinds
# p/1 and p/2 share a name: code that identifies predicates by name only is then observably wrong
POOL = [("p", 1), ("q", 2), ("r", 0), ("p", 2)]
LIT = {("p", 1): "p(X)", ("q", 2): "q(X,Y)", ("r", 0): "r", ("p", 2): "p(X,Y)", ("mk", 1): "mk(X)"}

# statement types and their slot kinds; every kind: (name, template for ONE literal L, my classification)
#   cls: H = positive head atom, B = mentioned in the rule body / objective body, C = head element condition,
#        N = negative/other head literal
RULE_HEADS = {
    "R_lit": [("head_lit", "{L}", "H"), ("head_lit_neg", "not {L}", "N"), ("head_lit_dneg", "not not {L}", "N")],
    "R_disj": [("disj_lit", "{L}", "H"), ("disj_lit_neg", "not {L}", "N"), ("disj_cond", "fa : {L}", "C"), ("disj_cond_neg", "fa : not {L}", "C")],
    "R_choice": [("choice_lit", "{L}", "H"), ("choice_cond", "fa : {L}", "C"), ("choice_cond_neg", "fa : not {L}", "C")],
    "R_hagg": [("hagg_lit", "1,{I} : {L} : fb", "H"), ("hagg_cond", "1,{I} : fa : {L}", "C"), ("hagg_cond_neg", "1,{I} : fa : not {L}", "C")],
}
BODY = [
    ("body_lit", "{L}", "B"), ("body_lit_neg", "not {L}", "B"), ("body_lit_dneg", "not not {L}", "B"),
    ("body_condhead", "{L} : fc", "B"), ("body_condhead_neg", "not {L} : fc", "B"), ("body_condcond", "fd : {L}", "B"), ("body_condcond_neg", "fd : not {L}", "B"),
    ("body_agg", "1 <= #sum {{ 1,{I} : {L} }}", "B"), ("body_agg_neg", "1 <= #sum {{ 1,{I} : not {L} }}", "B"), ("body_negagg", "not 1 <= #sum {{ 1,{I} : {L} }}", "B"),
    ("body_oldagg", "1 {{ {L} }}", "B"), ("body_oldagg_cond", "1 {{ fe : {L} }}", "B"), ("body_minmax", "0 < #max {{ 1,{I} : {L} }}", "B"),
]
SHOW = [("show_lit", "{L}", "S"), ("show_lit_neg", "not {L}", "S"), ("show_condhead", "{L} : fc", "S"), ("show_condcond", "fd : {L}", "S"), ("show_condcond_neg", "fd : not {L}", "S")]
TYPES = ["R_lit", "R_disj", "R_choice", "R_hagg", "MIN", "SHOWSIG", "SHOWNONE", "SHOWTERM", "OTHER"]
SINGLE_SLOT = {"head_lit", "head_lit_neg", "head_lit_dneg"}


def kinds_of(typ):
    if typ in RULE_HEADS:
        return RULE_HEADS[typ] + BODY
    if typ == "MIN":
        return [("min_" + k[5:], t, "B") for k, t, _ in BODY]
    if typ == "SHOWTERM":
        return SHOW
    return []


ALL_KINDS = {}
for _t in TYPES:
    for _k, _tpl, _c in kinds_of(_t):
        ALL_KINDS[_k] = (_t if _t not in RULE_HEADS or _k in [x[0] for x in RULE_HEADS[_t]] else "R*", _tpl, _c)
KIND_NAMES = sorted(ALL_KINDS)


def build_statement(typ, occ, showsig=None):
    """occ: list of (kind, pred) -> statement text of the given type"""
    n = itertools.count()

    def lits(kinds):
        out = []
        for k, tpl, _ in kinds:
            for kk, p in occ:
                if kk == k:
                    out.append(tpl.format(L=LIT[p], I=next(n)))
        return out

    if typ in RULE_HEADS:
        hs = lits(RULE_HEADS[typ])
        body = lits(BODY)
        if typ == "R_lit":
            head = hs[0] if hs else ""
        elif typ == "R_disj":
            head = " ; ".join(hs + ["fz"]) if len(hs) < 2 else " ; ".join(hs)
            if len(hs) == 1:
                head = hs[0] + " ; fz"
            if not hs:
                head = "fy ; fz"
        elif typ == "R_choice":
            head = "{ " + " ; ".join(hs or ["fz"]) + " }"
        else:
            head = "#sum { " + " ; ".join(hs or ["1,z : fz : fb"]) + " } 1"
        return (head + (" :- " + "; ".join(body) if body else "") + ".").strip() if (head or body) else ":- ff."
    if typ == "MIN":
        body = []
        for k, tpl, _ in BODY:
            for kk, p in occ:
                if kk == "min_" + k[5:]:
                    body.append(tpl.format(L=LIT[p], I=next(n)))
        return ":~ " + "; ".join(body or ["ff"]) + ". [1@1]"
    if typ == "SHOWSIG":
        return "#show %s/%d." % showsig
    if typ == "SHOWNONE":
        return "#show."
    if typ == "SHOWTERM":
        body = lits(SHOW)
        return "#show t" + (" : " + "; ".join(body) if body else "") + "."
    return "#const cc = 1."


# --------------------------------------------------------------------------------------------- table extraction
_PROBES = {}


def probes():
    """kind -> (probe text, statement AST, show-body literals) with the marker mk/1 at exactly that position"""
    from clingo.ast import ASTType

    from . import astutil

    if not _PROBES:
        for typ in TYPES:
            for k, _, _ in kinds_of(typ):
                text = build_statement(typ, [(k, ("mk", 1))])
                stm = [s for s in astutil.parse(text) if s.ast_type != ASTType.Program][0]
                _PROBES[k] = (text, stm, typ)
    return _PROBES


def is_collector(fn):
    """a function of ngo.utils.ast that yields SignedPredicates of an AST (recognised by its annotations)"""
    if not callable(fn) or getattr(fn, "__module__", "") != "ngo.utils.ast":
        return False
    ann = getattr(fn, "__annotations__", {})
    return "SignedPredicate" in str(ann.get("return", ""))


def table_for(fn, signs=None):
    """(statement-level table, show-literal-level table) of a REAL collector, from the one-marker probes; signs=None:
    the collector's own default"""
    from ngo.utils import ast as nast

    def call(x):
        if signs is not None:
            return list(fn(x, signs))
        try:
            return list(fn(x, nast.SIGNS))
        except TypeError:
            return list(fn(x))

    stm_t, lit_t = {}, {}
    for k, (text, stm, typ) in probes().items():
        try:
            stm_t[k] = int(any(sp.pred.name == "mk" for sp in call(stm)))
            if typ == "SHOWTERM":
                lit_t[k] = int(any(sp.pred.name == "mk" for l in stm.body for sp in call(l)))
        except TypeError:
            if signs is None:
                raise
            raise HarnessError("collector does not take a sign set")
    return stm_t, lit_t


def extract_tables():
    from ngo.utils import ast as nast

    T = {}
    for name in ("predicates", "headderivable_predicates", "body_predicates", "minimize_predicates"):
        T[name], lit = table_for(getattr(nast, name))
        if name == "predicates":
            T["predicates_on_show_literal"] = lit
    return T, {k: v[0] for k, v in probes().items()}


# --------------------------------------------------------------------------------------------- symbolic values
class SymSet:
    def __init__(self, mem=None):
        self.mem = dict(mem or {})

    def get(self, e):
        import z3

        return self.mem.get(e, z3.BoolVal(False))

    def add(self, e, g):
        import z3

        self.mem[e] = z3.Or(self.get(e), g)

    def items(self):
        return list(self.mem.items())


class Guarded(list):
    """list of (guard, value)"""


class DefaultDict:
    """defaultdict(set) with symbolic key existence (a key exists once it was accessed under a true guard)"""

    def __init__(self):
        self.d = {}
        self.exists = {}

    def get(self, k, g=None):
        import z3

        if g is not None:
            self.exists[k] = z3.Or(self.exists.get(k, z3.BoolVal(False)), g)
        return self.d.setdefault(k, SymSet())

    def items(self):
        return Guarded((self.exists[k], (k, v)) for k, v in sorted(self.d.items(), key=lambda x: str(x[0])) if k in self.exists)

    def keys(self):
        return Guarded((g, kv[0]) for g, kv in self.items())

    def values(self):
        return Guarded((g, kv[1]) for g, kv in self.items())


class SymDict:
    """a plain dict with guarded insertions, in program order: (guard, key, value); a later insertion under the same key
    replaces the earlier one"""

    def __init__(self):
        self.entries = []

    def set(self, key, value, g):
        self.entries.append((g, key, value))

    def live(self):
        import z3

        out = Guarded()
        for i, (g, k, v) in enumerate(self.entries):
            later = [g2 for g2, k2, _ in self.entries[i + 1:] if k2 == k]
            out.append((z3.And([g] + [z3.Not(x) for x in later]), (k, v)))
        return out

    def items(self):
        return self.live()

    def keys(self):
        return Guarded((g, kv[0]) for g, kv in self.live())

    def values(self):
        return Guarded((g, kv[1]) for g, kv in self.live())


class SymStm:
    """a statement of symbolic type"""

    def __init__(self, idx, model):
        self.idx = idx
        self.m = model

    @property
    def ast_type(self):
        return ("asttype", self.idx)

    @property
    def name(self):
        return ("showsig_name", self.idx)

    @property
    def arity(self):
        return ("showsig_arity", self.idx)

    @property
    def body(self):
        return [("showlit", self.idx, k) for k, _, _ in SHOW]


class Model:
    """the free variables: statement types and occupancies"""

    def __init__(self, n, tables):
        import z3

        self.n = n
        self.T = tables
        self.typ = {(s, t): z3.Bool(f"typ_{s}_{t}") for s in range(n) for t in TYPES}
        self.occ = {(s, k, p): z3.Bool(f"occ_{s}_{k}_{p[0]}{p[1]}") for s in range(n) for k in KIND_NAMES for p in POOL}
        self.sig = {(s, p): z3.Bool(f"sig_{s}_{p[0]}{p[1]}") for s in range(n) for p in POOL}
        self.constraints = []
        for s in range(n):
            ts = [self.typ[(s, t)] for t in TYPES]
            self.constraints.append(z3.PbEq([(t, 1) for t in ts], 1))
            for t in TYPES:
                allowed = {k for k, _, _ in kinds_of(t)}
                for k in KIND_NAMES:
                    if k not in allowed:
                        for p in POOL:
                            self.constraints.append(z3.Implies(self.typ[(s, t)], z3.Not(self.occ[(s, k, p)])))
            single = [self.occ[(s, k, p)] for k in SINGLE_SLOT for p in POOL]
            self.constraints.append(z3.PbLe([(x, 1) for x in single], 1))
            sg = [self.sig[(s, p)] for p in POOL]
            self.constraints.append(z3.If(self.typ[(s, "SHOWSIG")], z3.PbEq([(x, 1) for x in sg], 1), z3.Not(z3.Or(sg))))

    def collector(self, fn):
        import z3
        from clingo.ast import Sign
        from ngo.utils import ast as nast
        from ngo.utils.ast import Predicate, SignedPredicate

        tables = {}

        def tab(signs):
            key = None if signs is None else frozenset(signs)
            if key not in tables:
                tables[key] = table_for(fn, None if signs is None else set(signs))
                tag = fn.__name__ + ("" if key is None or key == frozenset(nast.SIGNS) else "[" + ",".join(sorted(str(x).split(".")[-1] for x in key)) + "]")
                self.T[tag] = tables[key][0]
                self.T[tag + "@show_literal"] = tables[key][1]
            return tables[key]

        tab(None)

        def f(stm, signs=None):
            if signs is not None and not isinstance(signs, (set, frozenset)):
                raise HarnessError("collector called with a non-constant sign set")
            stm_t, lit_t = tab(signs)
            if isinstance(stm, tuple) and stm[0] == "showlit":
                _, s, k = stm
                if not lit_t.get(k):
                    return Guarded()
                return Guarded((self.occ[(s, k, p)], SignedPredicate(Sign.NoSign, Predicate(*p))) for p in POOL)
            s = stm.idx
            out = Guarded()
            for p in POOL:
                g = z3.Or([self.occ[(s, k, p)] for k in KIND_NAMES if stm_t.get(k)])
                out.append((g, SignedPredicate(Sign.NoSign, Predicate(*p))))
            return out

        return f


class Interp:
    """guarded symbolic execution of one Python function (source from inspect)"""

    def __init__(self, func, model):
        import z3

        self.z3 = z3
        src = textwrap.dedent(inspect.getsource(func))
        self.fdef = pyast.parse(src).body[0]
        self.globals = dict(func.__globals__)
        self.model = model
        self.stubbed = []
        for name, fn in list(self.globals.items()):
            if is_collector(fn):
                self.globals[name] = model.collector(fn)
                self.stubbed.append(name)
        self.supported = 0
        self.order_sensitive = False
        self.loops = []  # per enclosing loop: [broken, continued] as z3 formulas

    def run(self, *args):
        env = dict(zip([a.arg for a in self.fdef.args.args], args))
        self.ret = None
        try:
            self.block(self.fdef.body, env, self.z3.BoolVal(True))
        except HarnessError:
            raise
        except Exception as e:  # noqa
            raise HarnessError(f"{type(e).__name__}: {e}") from e
        if self.ret is None:
            raise HarnessError("function did not return")
        return self.ret

    def block(self, stmts, env, g):
        z3 = self.z3
        for s in stmts:
            if self.loops:
                brk, cont = self.loops[-1]
                self.stmt(s, env, z3.And(g, z3.Not(brk), z3.Not(cont)))
            else:
                self.stmt(s, env, g)

    def truth(self, c):
        z3 = self.z3
        if isinstance(c, z3.BoolRef):
            return c
        if isinstance(c, SymSet):
            return z3.Or([m for _, m in c.items()]) if c.items() else z3.BoolVal(False)
        if isinstance(c, SymDict):
            return z3.Or([g_ for g_, _, _ in c.entries]) if c.entries else z3.BoolVal(False)
        if isinstance(c, Guarded):
            return z3.Or([g_ for g_, _ in c]) if c else z3.BoolVal(False)
        if isinstance(c, tuple) and c and c[0] == "showsig_name":
            return z3.Not(self.model.typ[(c[1], "SHOWNONE")])  # the name of `#show.` is the empty string
        if isinstance(c, tuple) and c and c[0] == "showsig_arity":
            return z3.Or([self.model.sig[(c[1], p)] for p in POOL if p[1] > 0])
        if isinstance(c, tuple) and c and isinstance(c[0], str) and c[0] in ("asttype", "showlit"):
            raise HarnessError("truth value of a symbolic object " + c[0])
        return bool(c)

    def stmt(self, s, env, g):
        z3 = self.z3
        self.supported += 1
        if isinstance(s, pyast.Expr):
            if isinstance(s.value, pyast.Constant):
                return
            self.expr(s.value, env, g)
        elif isinstance(s, (pyast.Assign, pyast.AnnAssign)):
            tgt = s.targets[0] if isinstance(s, pyast.Assign) else s.target
            if isinstance(tgt, pyast.Subscript):
                base = self.expr(tgt.value, env, g)
                if not isinstance(base, SymDict):
                    raise HarnessError("assignment to a subscript of a non-dict")
                self.dict_set(base, self.expr(tgt.slice, env, g), self.expr(s.value, env, g), g)
                return
            if not isinstance(tgt, pyast.Name):
                raise HarnessError("unsupported assignment target " + pyast.dump(tgt))
            if s.value is None:
                return
            env[tgt.id] = self.expr(s.value, env, g)
        elif isinstance(s, pyast.For):
            it = self.expr(s.iter, env, g)
            if s.orelse:
                raise HarnessError("for ... else is not supported")
            self.loops.append([z3.BoolVal(False), z3.BoolVal(False)])
            for guard, val in self.iterate(it):
                self.bind(s.target, val, env)
                self.loops[-1][1] = z3.BoolVal(False)
                self.block(s.body, env, z3.And(g, guard))
            self.loops.pop()
        elif isinstance(s, pyast.Break):
            if not self.loops:
                raise HarnessError("break outside of a loop")
            self.loops[-1][0] = z3.Or(self.loops[-1][0], g)
        elif isinstance(s, pyast.Continue):
            if not self.loops:
                raise HarnessError("continue outside of a loop")
            self.loops[-1][1] = z3.Or(self.loops[-1][1], g)
        elif isinstance(s, pyast.If):
            c = self.truth(self.expr(s.test, env, g))
            if isinstance(c, z3.BoolRef):
                self.block(s.body, env, z3.And(g, c))
                self.block(s.orelse, env, z3.And(g, z3.Not(c)))
            elif c:
                self.block(s.body, env, g)
            else:
                self.block(s.orelse, env, g)
        elif isinstance(s, pyast.Return):
            if self.ret is not None:
                raise HarnessError("several return statements are not supported")
            self.ret = self.expr(s.value, env, g)
        else:
            raise HarnessError("unsupported statement " + pyast.dump(s)[:80])

    def dict_set(self, d, key, value, g):
        """d[key] = value where key / value may be the symbolic name / predicate of a #show signature"""
        z3 = self.z3
        if isinstance(value, Guarded):
            for guard, v in value:
                k = v.name if isinstance(key, tuple) and key and key[0] == "showsig_name" else key
                d.set(k, v, z3.And(g, guard))
        else:
            d.set(key, value, g)

    def bind(self, target, val, env):
        if isinstance(target, pyast.Name):
            env[target.id] = val
        elif isinstance(target, pyast.Tuple):
            for t, v in zip(target.elts, val):
                self.bind(t, v, env)
        else:
            raise HarnessError("unsupported loop target")

    def iterate(self, it):
        z3 = self.z3
        if isinstance(it, SymSet):
            return [(m, e) for e, m in sorted(it.items(), key=lambda x: str(x[0]))]
        if isinstance(it, Guarded):
            return list(it)
        if isinstance(it, (DefaultDict, SymDict)):
            return list(it.keys())
        return [(z3.BoolVal(True), v) for v in it]

    def expr(self, e, env, g):
        z3 = self.z3
        if isinstance(e, pyast.Constant):
            return e.value
        if isinstance(e, pyast.Name):
            if e.id in env:
                return env[e.id]
            if e.id in self.globals:
                return self.globals[e.id]
            import builtins

            return getattr(builtins, e.id)
        if isinstance(e, pyast.Attribute):
            return getattr(self.expr(e.value, env, g), e.attr)
        if isinstance(e, pyast.JoinedStr):
            return "<fstring>"
        if isinstance(e, pyast.ListComp):
            gen = e.generators[0]
            if len(e.generators) != 1:
                raise HarnessError("unsupported comprehension")
            out = Guarded()
            for guard, val in self.iterate(self.expr(gen.iter, env, g)):
                env2 = dict(env)
                self.bind(gen.target, val, env2)
                cond = z3.And([z3.BoolVal(c) if isinstance(c, bool) else c for c in [self.truth(self.expr(i, env2, g)) for i in gen.ifs]] or [z3.BoolVal(True)])
                out.append((z3.And(guard, cond), self.expr(e.elt, env2, g)))
            return out
        if isinstance(e, (pyast.Set, pyast.Tuple, pyast.List)):
            vals = [self.expr(x, env, g) for x in e.elts]
            if any(isinstance(v, (z3.ExprRef, SymSet, Guarded, SymDict, DefaultDict)) for v in vals):
                raise HarnessError("container display with symbolic elements")
            return frozenset(vals) if isinstance(e, pyast.Set) else (tuple(vals) if isinstance(e, pyast.Tuple) else list(vals))
        if isinstance(e, pyast.Dict):
            d = SymDict()
            for k, v in zip(e.keys, e.values):
                self.dict_set(d, self.expr(k, env, g), self.expr(v, env, g), z3.BoolVal(True))
            return d
        if isinstance(e, pyast.DictComp):
            gen = e.generators[0]
            if len(e.generators) != 1:
                raise HarnessError("unsupported comprehension")
            d = SymDict()
            seen_keys = set()
            for guard, val in self.iterate(self.expr(gen.iter, env, g)):
                env2 = dict(env)
                self.bind(gen.target, val, env2)
                cond = z3.And([z3.BoolVal(c) if isinstance(c, bool) else c for c in [self.truth(self.expr(i, env2, g)) for i in gen.ifs]] or [z3.BoolVal(True)])
                k = self.expr(e.key, env2, g)
                if k in seen_keys:
                    # two elements of one comprehension under the same key: the later one survives.  The stubs yield in the
                    # order in which build_statement writes the literals (kind order, then pool order); a collector that
                    # yields in another order shows up as a disagreement in the abstraction validation (exit 3)
                    self.order_sensitive = True
                seen_keys.add(k)
                d.set(k, self.expr(e.value, env2, g), z3.And(guard, cond))
            return d
        if isinstance(e, pyast.Subscript):
            base = self.expr(e.value, env, g)
            key = self.expr(e.slice, env, g)
            if isinstance(base, DefaultDict):
                return base.get(key, g)
            return base[key]
        if isinstance(e, pyast.BinOp) and isinstance(e.op, pyast.Sub):
            l, r = self.expr(e.left, env, g), self.expr(e.right, env, g)
            if not (isinstance(l, SymSet) and isinstance(r, SymSet)):
                raise HarnessError("set difference on non-sets")
            return SymSet({x: z3.And(m, z3.Not(r.get(x))) for x, m in l.items()})
        if isinstance(e, pyast.BoolOp):
            vals = [self.truth(self.expr(v, env, g)) for v in e.values]
            vals = [z3.BoolVal(v) if isinstance(v, bool) else v for v in vals]
            return z3.And(vals) if isinstance(e.op, pyast.And) else z3.Or(vals)
        if isinstance(e, pyast.UnaryOp) and isinstance(e.op, pyast.Not):
            v = self.truth(self.expr(e.operand, env, g))
            return (not v) if isinstance(v, bool) else z3.Not(v)
        if isinstance(e, pyast.BinOp) and isinstance(e.op, (pyast.BitOr, pyast.BitAnd)):
            l, r = self.expr(e.left, env, g), self.expr(e.right, env, g)
            if not (isinstance(l, SymSet) and isinstance(r, SymSet)):
                raise HarnessError("set operation on non-sets")
            keys = set(l.mem) | set(r.mem)
            op = z3.Or if isinstance(e.op, pyast.BitOr) else z3.And
            return SymSet({k: op(l.get(k), r.get(k)) for k in keys})
        if isinstance(e, pyast.Compare) and len(e.ops) == 1 and isinstance(e.ops[0], (pyast.LtE, pyast.GtE, pyast.Lt, pyast.Gt, pyast.NotEq)):
            l, r = self.expr(e.left, env, g), self.expr(e.comparators[0], env, g)
            if isinstance(l, SymSet) and isinstance(r, SymSet):
                keys = set(l.mem) | set(r.mem)
                sub = z3.And([z3.Implies(l.get(k), r.get(k)) for k in keys] or [z3.BoolVal(True)])
                sup = z3.And([z3.Implies(r.get(k), l.get(k)) for k in keys] or [z3.BoolVal(True)])
                return {pyast.LtE: sub, pyast.GtE: sup, pyast.Lt: z3.And(sub, z3.Not(sup)), pyast.Gt: z3.And(sup, z3.Not(sub)), pyast.NotEq: z3.Not(z3.And(sub, sup))}[type(e.ops[0])]
            if isinstance(e.ops[0], pyast.NotEq):
                return l != r
            raise HarnessError("ordering comparison on non-sets")
        if isinstance(e, pyast.Compare) and len(e.ops) == 1 and isinstance(e.ops[0], (pyast.In, pyast.NotIn)):
            l, r = self.expr(e.left, env, g), self.expr(e.comparators[0], env, g)
            if isinstance(r, SymSet):
                m = r.get(l)
            elif isinstance(r, Guarded):
                m = z3.Or([gd for gd, v in r if v == l] or [z3.BoolVal(False)])
            elif isinstance(r, DefaultDict):
                m = r.exists.get(l, z3.BoolVal(False))
            else:
                return (l in r) if isinstance(e.ops[0], pyast.In) else (l not in r)
            return m if isinstance(e.ops[0], pyast.In) else z3.Not(m)
        if isinstance(e, (pyast.SetComp, pyast.GeneratorExp)):
            gen = e.generators[0]
            if len(e.generators) != 1:
                raise HarnessError("unsupported comprehension")
            out = Guarded()
            for guard, val in self.iterate(self.expr(gen.iter, env, g)):
                env2 = dict(env)
                self.bind(gen.target, val, env2)
                cond = z3.And([z3.BoolVal(c) if isinstance(c, bool) else c for c in [self.truth(self.expr(i, env2, g)) for i in gen.ifs]] or [z3.BoolVal(True)])
                out.append((z3.And(guard, cond), self.expr(e.elt, env2, g)))
            if isinstance(e, pyast.SetComp):
                st = SymSet()
                for guard, v in out:
                    st.add(v, guard)
                return st
            return out
        if isinstance(e, pyast.Compare) and len(e.ops) == 1 and isinstance(e.ops[0], pyast.Eq):
            l, r = self.expr(e.left, env, g), self.expr(e.comparators[0], env, g)
            if isinstance(l, SymSet) and isinstance(r, SymSet):
                keys = set(l.mem) | set(r.mem)
                return z3.And([l.get(k) == r.get(k) for k in keys]) if keys else z3.BoolVal(True)
            if isinstance(l, tuple) and l and l[0] == "asttype":
                from clingo.ast import ASTType

                s = l[1]
                if r == ASTType.ShowSignature:
                    return z3.Or(self.model.typ[(s, "SHOWSIG")], self.model.typ[(s, "SHOWNONE")])
                if r == ASTType.ShowTerm:
                    return self.model.typ[(s, "SHOWTERM")]
                if r == ASTType.Rule:
                    return z3.Or([self.model.typ[(s, t)] for t in RULE_HEADS])
                if r == ASTType.Minimize:
                    return self.model.typ[(s, "MIN")]
                raise HarnessError(f"comparison of ast_type with {r}")
            return l == r
        if isinstance(e, pyast.Call):
            return self.call(e, env, g)
        raise HarnessError("unsupported expression " + pyast.dump(e)[:80])

    def call(self, e, env, g):
        z3 = self.z3
        f = e.func
        args = [self.expr(a, env, g) for a in e.args]
        if isinstance(f, pyast.Attribute):
            obj = self.expr(f.value, env, g)
            if isinstance(obj, SymSet):
                if f.attr == "add":
                    a = args[0]
                    if isinstance(a, Guarded):
                        for guard, v in a:
                            obj.add(v, z3.And(g, guard))
                    else:
                        obj.add(a, g)
                    return None
                if f.attr == "update":
                    for guard, v in self.iterate(args[0]):
                        obj.add(v, z3.And(g, guard))
                    return None
                raise HarnessError("unsupported set method " + f.attr)
            if isinstance(obj, SymDict):
                if f.attr == "update":
                    src = args[0]
                    if not isinstance(src, SymDict):
                        raise HarnessError("dict.update with a non-dict")
                    for guard, k, v in src.entries:
                        obj.set(k, v, z3.And(g, guard))
                    return None
                if f.attr in ("values", "keys", "items"):
                    return getattr(obj, f.attr)()
                if f.attr == "get":
                    raise HarnessError("dict.get is not modelled")
                raise HarnessError("unsupported dict method " + f.attr)
            if isinstance(obj, Guarded) and f.attr == "append":
                obj.append((g, args[0]))
                return None
            if f.attr in ("info", "debug", "warning"):
                return None
            return getattr(obj, f.attr)(*args)
        fn = self.expr(f, env, g)
        name = getattr(fn, "__name__", "")
        if fn is set:
            st = SymSet()
            if args:
                for guard, v in self.iterate(args[0]):
                    st.add(v, guard)
            return st
        if name == "defaultdict":
            return DefaultDict()
        if fn is dict and not args:
            return SymDict()
        if fn is enumerate:
            return list(enumerate(args[0]))
        if fn is sorted or fn is list:
            if isinstance(args[0], SymSet):
                return Guarded(self.iterate(args[0]))
            return args[0]
        if name == "chain":
            out = Guarded()
            for a in args:
                out.extend(self.iterate(a))
            return out
        if name == "Predicate" and args and isinstance(args[0], tuple) and args[0][0] == "showsig_name":
            from ngo.utils.ast import Predicate

            s = args[0][1]
            return Guarded([(self.model.sig[(s, p)], Predicate(*p)) for p in POOL] + [(self.model.typ[(s, "SHOWNONE")], Predicate("", 0))])
        return fn(*args)


def membership(res):
    """pool predicate -> z3 formula 'is in the returned list/set'"""
    import z3
    from ngo.utils.ast import Predicate

    out = {}
    items = res if isinstance(res, Guarded) else Guarded((m, e) for e, m in res.items())
    for p in POOL:
        out[p] = z3.Or([gd for gd, v in items if v == Predicate(*p)] or [z3.BoolVal(False)])
    return out


# --------------------------------------------------------------------------------------------- property + concrete side
def cls_kinds(c):
    return [k for k in KIND_NAMES if ALL_KINDS[k][2] == c]


def spec_formulas(model, mem_in, mem_out):
    """violation formulas of the three clauses, by MY classification of the position kinds"""
    import z3

    n = model.n
    viol = {"input_misses_open_predicate": [], "input_contains_defined_predicate": [], "output_wrong": []}
    rule_or_obj = [k for k in KIND_NAMES if ALL_KINDS[k][2] in "HBCN"]
    for p in POOL:
        occurs = z3.Or([model.occ[(s, k, p)] for s in range(n) for k in rule_or_obj])
        pos_head = z3.Or([model.occ[(s, k, p)] for s in range(n) for k in cls_kinds("H")])
        viol["input_misses_open_predicate"].append(z3.And(occurs, z3.Not(pos_head), z3.Not(mem_in[p])))
        defd = z3.Or([z3.And(z3.Or([model.occ[(s, k, p)] for k in cls_kinds("H")]), z3.Not(z3.Or([model.occ[(s, k, p)] for k in cls_kinds("B")]))) for s in range(n)])
        viol["input_contains_defined_predicate"].append(z3.And(defd, mem_in[p]))
        shown = z3.Or([model.sig[(s, p)] for s in range(n)] + [model.occ[(s, k, p)] for s in range(n) for k in cls_kinds("S")])
        viol["output_wrong"].append(shown != mem_out[p])
    return {k: z3.Or(v) for k, v in viol.items()}


def program_of(z3model, model):
    import z3

    stms = []
    for s in range(model.n):
        typ = [t for t in TYPES if z3.is_true(z3model.eval(model.typ[(s, t)], model_completion=True))][0]
        occ = [(k, p) for k in KIND_NAMES for p in POOL if z3.is_true(z3model.eval(model.occ[(s, k, p)], model_completion=True))]
        sig = [p for p in POOL if z3.is_true(z3model.eval(model.sig[(s, p)], model_completion=True))]
        stms.append(build_statement(typ, occ, sig[0] if sig else None))
    return "\n".join(stms)


def concrete(text):
    """real functions + my independent oracle on a concrete program"""
    from clingo.ast import ASTType
    from ngo.utils.globals import auto_detect_input, auto_detect_output

    from . import astutil

    stms = astutil.parse(text)
    got_in = {(p.name, p.arity) for p in auto_detect_input(stms)}
    got_out = {(p.name, p.arity) for p in auto_detect_output(stms)}
    occ_rule = set()
    for s in stms:
        if s.ast_type in (ASTType.Rule, ASTType.Minimize):
            occ_rule |= astutil.all_sigs(s)
    pos_head = astutil.defined_sigs(stms)
    must_in = occ_rule - pos_head
    must_not = set()
    for s in stms:
        if s.ast_type == ASTType.Rule:
            body = set()
            for b in s.body:
                body |= astutil.all_sigs(b)
            must_not |= astutil.head_atom_sigs(s) - body
    want_out = set()
    for s in stms:
        if s.ast_type == ASTType.ShowSignature:
            want_out.add((s.name, s.arity))
        elif s.ast_type == ASTType.ShowTerm:
            for b in s.body:
                want_out |= astutil.all_sigs(b)
    problems = []
    if not must_in <= got_in:
        problems.append(f"auto_detect_input misses {sorted(must_in - got_in)}")
    if must_not & got_in:
        problems.append(f"auto_detect_input reports {sorted(must_not & got_in)} although a statement derives it without using it in its body")
    if got_out != want_out:
        problems.append(f"auto_detect_output = {sorted(got_out)} but shown signatures / show-term conditions give {sorted(want_out)}")
    return got_in, got_out, problems


def run(tier, seed):
    t0 = time.time()
    sys.path.insert(0, os.path.join(ROOT, ".deps"))
    import z3
    from ngo.utils import globals as G

    from . import evidence

    n = 2 if tier == "quick" else 3
    violations, harness, queries, samples = [], [], [], []
    try:
        T, probes = extract_tables()
        model = Model(n, T)
        stm_objs = [SymStm(i, model) for i in range(n)]
        it_in = Interp(G.auto_detect_input, model)
        res_in = it_in.run(stm_objs)
        it_out = Interp(G.auto_detect_output, model)
        res_out = it_out.run(stm_objs)
        mem_in, mem_out = membership(res_in), membership(res_out)
        spec = spec_formulas(model, mem_in, mem_out)
        solver_s = 0.0
        for name, f in spec.items():
            s = z3.Solver()
            s.set("timeout", 120000 if tier == "quick" else 600000)
            s.add(model.constraints)
            s.add(f)
            t1 = time.time()
            r = str(s.check())
            dt = time.time() - t1
            solver_s += dt
            q = {"clause": name, "verdict": r, "s": round(dt, 3)}
            if r == "sat":
                text = program_of(s.model(), model)
                got_in, got_out, problems = concrete(text)
                q["program"] = text
                q["concrete_problems"] = problems
                if problems:
                    violations.append({"clause": name, "program": text, "problems": problems})
                else:
                    harness.append({"clause": name, "program": text, "why": "solver model does not reproduce on the real functions"})
            elif r != "unsat":
                q["inconclusive"] = True
            queries.append(q)
        # reachability twin: the precondition (statement typing) has models in which every clause premise is met
        tw = z3.Solver()
        tw.add(model.constraints)
        tw.add(z3.Or([mem_in[p] for p in POOL]), z3.Or([mem_out[p] for p in POOL]))
        twin = str(tw.check())
        # sabotage twin: a deliberately wrong specification must be refuted
        sb = z3.Solver()
        sb.add(model.constraints)
        sb.add(z3.Or([z3.And(z3.Or([model.occ[(s_, k, p)] for s_ in range(n) for k in cls_kinds("H")]), mem_in[p]) for p in POOL]))
        sabotage = str(sb.check())
        if twin != "sat" or sabotage != "sat":
            harness.append({"why": f"twins: reach={twin} sabotage={sabotage}"})
        # abstraction validation: random models of the typing constraints -> real program -> both sides must agree
        rnd = random.Random(seed)
        n_val = 60 if tier == "quick" else 400
        agree = 0
        for i in range(n_val):
            vs = z3.Solver()
            vs.set("random_seed", rnd.randint(0, 10 ** 6))
            vs.add(model.constraints)
            for s_ in range(n):
                typ = rnd.choice(TYPES)
                vs.add(model.typ[(s_, typ)])
                allowed = [k for k, _, _ in kinds_of(typ)]
                chosen = set()
                for _ in range(rnd.randint(0, 4)):
                    if allowed:
                        chosen.add((rnd.choice(allowed), rnd.choice(POOL)))
                for k in KIND_NAMES:
                    for p in POOL:
                        if (k, p) in chosen:
                            if k in SINGLE_SLOT and any(c[0] in SINGLE_SLOT and c != (k, p) for c in chosen):
                                continue
                            vs.add(model.occ[(s_, k, p)])
                        elif k not in SINGLE_SLOT or not any(c[0] in SINGLE_SLOT for c in chosen):
                            vs.add(z3.Not(model.occ[(s_, k, p)]))
            if str(vs.check()) != "sat":
                continue
            zm = vs.model()
            text = program_of(zm, model)
            try:
                got_in, got_out, problems = concrete(text)
            except RuntimeError as e:
                harness.append({"why": "generated program does not parse: " + text + " :: " + str(e)[:80]})
                break
            sym_in = {p for p in POOL if z3.is_true(zm.eval(mem_in[p], model_completion=True))}
            sym_out = {p for p in POOL if z3.is_true(zm.eval(mem_out[p], model_completion=True))}
            pool = set(POOL)
            if sym_in != (got_in & pool) or sym_out != (got_out & pool):
                harness.append({"why": "interpreter and real function disagree (position-locality assumption broken?)", "program": text,
                                "symbolic": [sorted(sym_in), sorted(sym_out)], "real": [sorted(got_in & pool), sorted(got_out & pool)]})
                break
            if problems:
                violations.append({"clause": "sampled model", "program": text, "problems": problems})
            agree += 1
            if i < 2:
                samples.append({"program": text, "auto_detect_input": sorted(got_in), "auto_detect_output": sorted(got_out)})
    except HarnessError as e:
        harness.append({"why": "unsupported construct in the interpreted source: " + str(e)})
        T, probes, queries, agree, n_val, solver_s = {}, {}, [], 0, 0, 0.0
    paths = []
    for i, v in enumerate(violations[:5]):
        d = os.path.join(ROOT, "evidence", "replay", "C18", f"cex{i}")
        os.makedirs(d, exist_ok=True)
        open(os.path.join(d, "source.lp"), "w").write(v["program"])
        json.dump({"property": "C18", "kind": "c18", "problems": v["problems"], "clause": v["clause"]}, open(os.path.join(d, "config.json"), "w"), indent=1)
        print(f"VIOLATION property=C18 replay={d}")
        paths.append(d)
    n_bools = len(model.occ) + len(model.typ) + len(model.sig) if not harness or T else 0
    ev = {
        "property_id": "C18", "tier": tier, "seed": seed, "level": "other",
        "coverage": {
            "explanation": "guarded symbolic execution of the source of auto_detect_input/auto_detect_output (ngo/utils/globals.py, read from /repo at run time) over "
                           f"{n} statements of symbolic type x {len(KIND_NAMES)} position kinds x {len(POOL)} pool predicates; z3 decides the three clauses of the property over all occupancies; "
                           "collectors replaced by stubs driven by a 0/1 table extracted from the REAL collectors on one-marker probes in this run",
            "evaluations": len(queries) + n_val, "distinct_nontrivial": len(queries) + agree,
            "rule": "evaluations = solver queries (one per clause) + sampled models replayed on the real functions; non-trivial = query decided / sampled model on which the real function and the symbolic result agree",
            "samples": samples or [{"note": "no sample"}],
            "queries": queries, "solver_seconds_total": round(solver_s, 3), "free_booleans": n_bools,
            "bounds": f"n = {n} statements, pool {POOL}, one literal per (statement, kind, predicate); outside: more statements, classical negation, theory atoms, pools in atoms",
            "functions_encoded": ["ngo.utils.globals.auto_detect_input", "ngo.utils.globals.auto_detect_output"],
            "stubbed_with_extracted_tables": sorted(set(it_in.stubbed + it_out.stubbed)) if T else [],
            "collector_table": T, "interpreted_statements": {"auto_detect_input": it_in.supported if T else 0, "auto_detect_output": it_out.supported if T else 0},
            "abstraction_validation": {"sampled_models": n_val, "agree": agree},
            "twins": {"reachability": twin if T else None, "sabotaged_spec_refuted": sabotage if T else None},
            "harness_errors": harness[:5],
        },
        "assumptions": ["collectors are position-local (result for a statement = union over its occupied positions): validated on sampled models, not proved",
                        "clingo's parser", "z3"],
        "wall_s": round(time.time() - t0, 2), "violations": len(violations),
    }
    evidence.write("C18", ev)
    print(f"[C18] clauses: {[(q['clause'], q['verdict']) for q in queries]}; sampled-model agreement {agree}/{n_val}; violations {len(violations)}; harness errors {len(harness)}; wall {time.time()-t0:.0f}s")
    if violations:
        return 1
    if harness or any(q.get("inconclusive") for q in queries):
        for h in harness[:3]:
            print("HARNESS-ERROR C18", json.dumps(h)[:400], file=sys.stderr)
        return 3
    return 0


def replay(path, cfg):
    text = open(os.path.join(path, "source.lp")).read()
    got_in, got_out, problems = concrete(text)
    print(text)
    print("auto_detect_input:", sorted(got_in), "auto_detect_output:", sorted(got_out))
    print(json.dumps(problems, indent=1))
    if problems:
        print(f"VIOLATION property=C18 replay={path}")
        return 1
    return 0
