"""C20: generated domain / min / max / next predicates describe the real domain.

For every result program B on which symmetry, minmax_chains or sum_chains emitted auxiliary domain or order predicates,
the solver is asked -- over the OPEN instance -- for an instance I and answer set(s) of B u I such that
  (a) an atom p(t) is true while its domain atom __dom_p(t) is false,
  (b) two answer sets for the same instance disagree on an atom of a domain / min / max / next predicate,
  (c) a __min_/__max_/__next_ atom is not the least / greatest element / immediate successor of the domain values of its
      group (clingo's term order, evaluated on the ground symbols when the formula is generated).
All three queries are purely existential.  Every sat answer is replayed with clingo on B u I and evaluated concretely."""
from __future__ import annotations

import json
import os
import re
import sys
import time

import clingo

from . import astutil, evidence, kf, ngorun, pool, props, smt, solve
from .e1 import lift_facts, pick_universes
from .gp import GP
from .ground import GroundError, ground, n_instance_atoms
from .tv import facts, instance_of

ORDER = re.compile(r"^__(min|max|next)_((?:\d+_)*\d+)_(\d+)(.+)$")
DOM = "__dom_"
TRAITS = ["symmetry", "minmax_chains", "sum_chains"]


def order_preds(sigs):
    """parse the generated names: kind, annotated positions, position, domain predicate name"""
    out = []
    names = {n for n, _ in sigs}
    for name, ar in sorted(sigs):
        m = ORDER.match(name)
        if not m:
            continue
        kind, anno, pos, dom = m.group(1), tuple(int(x) for x in m.group(2).split("_")), int(m.group(3)), m.group(4)
        if dom not in names:
            continue
        extra = 1 if kind in ("min", "max") else 2
        for dn, dar in sigs:
            if dn == dom and dar - len(anno) + extra == ar and pos in anno and all(a < dar for a in anno):
                out.append({"kind": kind, "pred": (name, ar), "dom": (dn, dar), "anno": anno, "pos": pos})
    return out


def dom_pairs(sigs, src_sigs=None):
    """(__dom_p/n, p/n) pairs for predicates p of the SOURCE program"""
    return [((n, a), (n[len(DOM):], a)) for n, a in sorted(sigs) if n.startswith(DOM) and (n[len(DOM):], a) in sigs
            and (src_sigs is None or (n[len(DOM):], a) in src_sigs)]


def group_of(sym, anno, pos):
    args = sym.arguments
    return tuple(a for i, a in enumerate(args) if i not in anno), args[pos]


def build_queries(B, gb, sigs, src_sigs):
    """returns [(name, Enc, xmap)] of existential violation queries over IsStable(B)"""
    atoms_by_sig = {}
    for a, s in gb.symtab.items():
        if a in B.atoms:
            atoms_by_sig.setdefault((s.name, len(s.arguments)), []).append((a, s))
    queries = []

    def base():
        enc = smt.Enc()
        x = {a: enc.bvar(f"a{a}") for a in sorted(B.atoms)}
        smt.enc_stable(enc, B, x, "A")
        return enc, x

    # (a) superset
    viol = []
    enc, x = base()
    for dsig, psig in dom_pairs(sigs, src_sigs):
        dom_atoms = {str(s)[len(DOM):]: a for a, s in atoms_by_sig.get(dsig, [])}
        for a, s in atoms_by_sig.get(psig, []):
            d = dom_atoms.get(str(s))
            viol.append(smt.AND([x[a], smt.NOT(x[d]) if d is not None else "true"]))
    if viol:
        enc.add(smt.OR(viol))
        queries.append(("superset", enc, x))
    # (c) min / max / next
    ops = order_preds(sigs)
    viol = []
    enc, x = base()
    for op in ops:
        doms = atoms_by_sig.get(op["dom"], [])
        groups = {}
        for a, s in doms:
            g, v = group_of(s, op["anno"], op["pos"])
            groups.setdefault(g, {}).setdefault(v, []).append(x[a])
        present = {g: {v: smt.OR(ls) for v, ls in vs.items()} for g, vs in groups.items()}
        seen = set()
        for a, s in atoms_by_sig.get(op["pred"], []):
            args = s.arguments
            if op["kind"] in ("min", "max"):
                g, v = tuple(args[:-1]), args[-1]
                vs = present.get(g, {})
                if v not in vs:
                    viol.append(x[a])
                    continue
                others = [f for w, f in vs.items() if (w < v if op["kind"] == "min" else w > v)]
                spec = smt.AND([vs[v]] + [smt.NOT(f) for f in others])
                viol.append(smt.NOT(f"(= {x[a]} {spec})"))
                seen.add((g, v))
            else:
                g, p, n = tuple(args[:-2]), args[-2], args[-1]
                vs = present.get(g, {})
                if p not in vs or n not in vs or not p < n:
                    viol.append(x[a])
                    continue
                between = [f for w, f in vs.items() if p < w < n]
                spec = smt.AND([vs[p], vs[n]] + [smt.NOT(f) for f in between])
                viol.append(smt.NOT(f"(= {x[a]} {spec})"))
                seen.add((g, p, n))
        # atoms that should exist but have no ground atom at all
        for g, vs in present.items():
            if op["kind"] in ("min", "max"):
                for v in vs:
                    if (g, v) not in seen:
                        others = [f for w, f in vs.items() if (w < v if op["kind"] == "min" else w > v)]
                        viol.append(smt.AND([vs[v]] + [smt.NOT(f) for f in others]))
            else:
                for p in vs:
                    for n in vs:
                        if p < n and (g, p, n) not in seen:
                            between = [f for w, f in vs.items() if p < w < n]
                            viol.append(smt.AND([vs[p], vs[n]] + [smt.NOT(f) for f in between]))
    if viol:
        enc.add(smt.OR(viol))
        queries.append(("order", enc, x))
    # (b) determined: two answer sets, same instance, different aux atom
    aux_sigs = {sg for sg in sigs if sg[0].startswith(DOM)} | {op["pred"] for op in ops}
    aux_atoms = [a for sg in aux_sigs for a, _ in atoms_by_sig.get(sg, [])]
    if aux_atoms:
        enc = smt.Enc()
        x1 = {a: enc.bvar(f"a{a}") for a in sorted(B.atoms)}
        x2 = {a: (x1[a] if a in B.visible else enc.bvar(f"c{a}")) for a in sorted(B.atoms)}
        smt.enc_stable(enc, B, x1, "A")
        smt.enc_stable(enc, B, x2, "C")
        enc.add(smt.OR(smt.NOT(f"(= {x1[a]} {x2[a]})") for a in aux_atoms))
        queries.append(("determined", enc, x1))
    return queries, len(ops), len(dom_pairs(sigs, src_sigs))


def concrete_check(dst, instance, consts=(), src_sigs=None):
    """evaluate (a),(b),(c) on the answer sets of dst+instance with clingo; returns list of problems"""
    ctl = clingo.Control(["0", "--opt-mode=ignore"] + [x for c in consts for x in ("-c", c)], logger=lambda c, m: None)
    ctl.add("base", [], dst + "\n" + instance)
    ctl.ground([("base", [])])
    models = []
    ctl.solve(on_model=lambda m: models.append(frozenset(m.symbols(atoms=True))) if len(models) < 2000 else None)
    sigs = astutil.program_sigs(astutil.parse(dst))
    ops = order_preds(sigs)
    pairs = dom_pairs(sigs, src_sigs)
    problems = []
    aux_names = {n for n, _ in sigs if n.startswith(DOM)} | {op["pred"][0] for op in ops}
    ref = None
    for m in models:
        by = {}
        for s in m:
            by.setdefault((s.name, len(s.arguments)), set()).add(s)
        for dsig, psig in pairs:
            for s in by.get(psig, ()):
                if clingo.Function(dsig[0], s.arguments) not in m:
                    problems.append(f"(a) {s} holds but {dsig[0]}{str(s)[len(psig[0]):]} does not")
        aux = frozenset(s for s in m if s.name in aux_names)
        if ref is None:
            ref = aux
        elif aux != ref:
            problems.append("(b) auxiliary domain/order atoms differ between answer sets: " + ", ".join(map(str, sorted(aux ^ ref)[:4])))
        for op in ops:
            groups = {}
            for s in by.get(op["dom"], ()):
                g, v = group_of(s, op["anno"], op["pos"])
                groups.setdefault(g, set()).add(v)
            have = by.get(op["pred"], set())
            want = set()
            for g, vs in groups.items():
                order = sorted(vs)
                if op["kind"] == "min":
                    want.add(clingo.Function(op["pred"][0], list(g) + [order[0]]))
                elif op["kind"] == "max":
                    want.add(clingo.Function(op["pred"][0], list(g) + [order[-1]]))
                else:
                    for p, n in zip(order, order[1:]):
                        want.add(clingo.Function(op["pred"][0], list(g) + [p, n]))
            if have != want:
                problems.append(f"(c) {op['pred'][0]}: expected {sorted(map(str, want))[:4]} got {sorted(map(str, have))[:4]}")
        if len(problems) > 5:
            break
    return problems


def bridge_inputs(dst, dst_stms, inputs, extra_pos=None):
    """an input predicate that the program also derives (e.g. guesses with a choice): its instance facts get their own
    predicate, otherwise derived atoms would count as part of the instance in the "does not depend on choices" clause"""
    inp = [tuple(x) for x in inputs]
    for name, ar in sorted(set(inp) & astutil.defined_sigs(dst_stms)):
        vs = ",".join(f"X{i}" for i in range(ar))
        dst += f"\n{name}{'(' + vs + ')' if ar else ''} :- __inst_{name}{'(' + vs + ')' if ar else ''}."
        inp = [x for x in inp if x != (name, ar)] + [(f"__inst_{name}", ar)]
        if extra_pos is not None and f"{name}/{ar}" in extra_pos:
            extra_pos[f"__inst_{name}/{ar}"] = extra_pos[f"{name}/{ar}"]
    return dst, inp


def run_task(task):
    t0 = time.time()
    res = {"id": task["id"], "enabled": task["enabled"], "status": None}
    try:
        stms = astutil.parse(task["text"])
    except RuntimeError:
        res.update(status="skip", reason="source does not parse")
        return res
    text = task["text"]
    extra_pos = dict(task.get("universe_pos") or {})
    lifted = []
    if task.get("lift"):
        lf = lift_facts(stms)
        if lf is None:
            res.update(status="skip", reason="nothing to lift")
            return res
        text, lifted, pos = lf
        extra_pos.update(pos)
        stms = astutil.parse(text)
    if astutil.symbolic_constants_in_arithmetic(stms):
        res.update(status="skip", reason="arithmetic on symbolic constants")
        return res
    ins = set(tuple(x) for x in (task.get("in") or [])) | astutil.undefined_sigs(stms) | set(tuple(x) for x in lifted)
    try:
        r = ngorun.run_ngo(text, sorted(ins), [], task["enabled"])
    except Exception as e:  # noqa
        res.update(status="not_explored", reason=f"optimize raised {type(e).__name__}")
        return res
    dst = "\n".join(r["stms"])
    res["source"], res["result"], res["in"] = text, dst, r["inp"]
    try:
        dst_stms = astutil.parse(dst)
    except RuntimeError:
        res.update(status="skip", reason="result does not parse (C04)")
        return res
    sigs = astutil.program_sigs(dst_stms)
    if not order_preds(sigs) and not any(n.startswith(DOM) for n, _ in sigs):
        res.update(status="skip", reason="no domain/order predicate emitted")
        return res
    dst, inp = bridge_inputs(dst, dst_stms, r["inp"], extra_pos)
    if inp != list(r["inp"]):
        r["inp"] = inp
        dst_stms = astutil.parse(dst)
        stms = astutil.parse(text + "\n" + "\n".join(str(x) for x in dst_stms if "__inst_" in str(x)))
    unis = pick_universes(stms, dst_stms, r["inp"], (), task.get("tier", "quick"), extra_pos, 1)
    if not unis:
        res.update(status="skip", reason="source does not ground")
        return res
    u = unis[0][0]
    try:
        gb = ground(text=dst, inputs=r["inp"], universe=u)
    except GroundError as e:
        res.update(status="skip", reason="result does not ground (C04): " + str(e)[:80])
        return res
    B = GP(gb, None)  # every symbolic atom visible: nothing is sliced away
    if not B.head_cycle_free():
        res.update(status="inconclusive", reason="non-HCF disjunction")
        return res
    res["universe"], res["instance_atoms"], res["sizes"] = u, n_instance_atoms(r["inp"], u), B.stats()
    # instance atoms only are shared between the two copies in (b)
    inst_sigs = set(r["inp"])
    B.visible = {a for a in B.atoms if B.sig.get(a) in inst_sigs}
    src_sigs = astutil.program_sigs(stms)
    queries, n_ops, n_pairs = build_queries(B, gb, sigs, src_sigs)
    res["order_predicates"], res["domain_pairs"] = n_ops, n_pairs
    res["queries"] = []
    res["solver_s"] = 0.0
    known = []
    kf6 = [e for e in task.get("kf", []) if e["match"].get("kind") == "dom_negated_false"]
    anti = sorted(astutil.antimonotone_domain_sigs(dst_stms, DOM, astutil.parse(task["text"])))
    timeout = 20 if task.get("tier", "quick") == "quick" else 90
    for name, enc, x in queries:
        assumed = False
        while True:
            get = [x[a] for a in sorted(B.atoms) if a in B.sym]
            v, model, dt = solve.run(enc.text(get), timeout)
            res["solver_s"] += dt
            res["queries"].append({"q": name, "verdict": v, "s": round(dt, 3), "assumed_known": assumed})
            if v == "unsat":
                break
            if v != "sat":
                res.update(status="inconclusive", reason=f"{name}: {v}")
                return res
            inst, trues = instance_of(model, B, x, r["inp"])
            problems = concrete_check(dst, facts(inst), src_sigs=src_sigs)
            if not problems:
                res.update(status="harness_error", reason=f"{name}: solver says sat but clingo sees no problem", counterexample={"instance": facts(inst)})
                return res
            if kf6 and anti and not assumed and kf_applies(dst, facts(inst), anti):
                known.append(kf6[0]["id"])
                for f in smt.kf_constraints(B, x, [{"kind": "all_false", "sigs": anti}]):
                    enc.add(f)
                assumed = True
                continue
            res.update(status="violation", reason=f"{name}: " + problems[0][:200], kind="c20",
                       counterexample={"instance": facts(inst), "replay": {"status": "differ", "detail": problems[:4]}})
            res["known_findings"] = known
            return res
    res["known_findings"] = sorted(set(known))
    res["status"] = "held"
    res["changed"] = True
    res["decided"] = [{"reach": "sat", "status": "held", "instance_atoms": res["instance_atoms"], "solver_s": res["solver_s"], "queries": res["queries"],
                       "universe": u, "sizes": {"B": res["sizes"]}, "known_findings": res["known_findings"]}]
    res["wall_s"] = round(time.time() - t0, 3)
    return res


def kf_applies(dst, instance, anti):
    ctl = clingo.Control([], logger=lambda c, m: None)
    try:
        ctl.add("base", [], dst + "\n" + instance)
        ctl.ground([("base", [])])
    except RuntimeError:
        return False
    return any(True for name, ar in anti for _ in ctl.symbolic_atoms.by_signature(name, ar))


def tasks(tier, seed):
    out = []
    fam = {"C11": "symmetry", "C12": "minmax_chains", "C13": "sum_chains"}
    for famid, tr in fam.items():
        for e in props.corpus_T([tr]) + props.corpus_G(famid):
            out.append({"id": e["id"], "text": e["text"], "in": e.get("in") if e.get("in") != "auto" else None, "enabled": [tr], "tier": tier, "universe_pos": e.get("universe_pos")})
            if e["id"].startswith("T-"):
                out.append({"id": e["id"] + "-L", "text": e["text"], "in": e.get("in"), "enabled": [tr], "tier": tier, "lift": True})
    for e in props.corpus_D():
        for tr in TRAITS:
            out.append({"id": e["id"], "text": e["text"], "in": e.get("in"), "enabled": [tr], "tier": tier, "universe_pos": e.get("universe_pos")})
    for e in props.corpus_G("C20"):
        for tr in e.get("traits", TRAITS):
            out.append({"id": e["id"], "text": e["text"], "in": e.get("in"), "enabled": [tr], "tier": tier, "universe_pos": e.get("universe_pos")})
    return out


def run(tier, seed):
    t0 = time.time()
    ts = props.dedupe(tasks(tier, seed))
    known = kf.load()
    for t in ts:
        t["kf"] = kf.class_entries(known, t["enabled"])
    print(f"[C20] {tier}: {len(ts)} (program, trait) tasks", flush=True)
    results = pool.run_tasks("vf.p_C20:run_task", ts, workers=min(15, os.cpu_count() or 2), task_timeout=100 if tier == "quick" else 600)
    extra = {"domain_pairs_checked": sum(r.get("domain_pairs", 0) for r in results if r["status"] == "held"),
             "order_predicates_checked": sum(r.get("order_predicates", 0) for r in results if r["status"] == "held"),
             "queries": "per result program: (a) p(t) true and __dom_p(t) false; (b) two answer sets of one instance differ on a domain/min/max/next atom; "
                        "(c) a min/max/next atom deviates from the extremes / covering relation of the true domain values of its group (clingo term order)",
             "functions_encoded": "answer-set semantics of gringo's open grounding of the text returned by the real ngo.api.optimize with symmetry / minmax_chains / sum_chains (the rules emitted by ngo.dependency.DomainPredicates)"}
    return props.finish_e1("C20", tier, seed, ts, results, known, t0, extra_cov=extra)


def replay(path, cfg):
    src = open(os.path.join(path, "source.lp")).read()
    inst = open(os.path.join(path, "instance.lp")).read()
    r = ngorun.run_ngo(src, [tuple(x) for x in cfg["in"]], [], cfg["enabled"])
    dst = "\n".join(r["stms"])
    dst, _ = bridge_inputs(dst, astutil.parse(dst), [tuple(x) for x in cfg["in"]])
    problems = concrete_check(dst, inst, src_sigs=astutil.program_sigs(astutil.parse(src)))
    print("result of the current ngo:\n" + dst)
    print(json.dumps(problems, indent=1))
    if problems:
        print(f"VIOLATION property=C20 replay={path}")
        return 1
    print("no problem on this instance with the current tree")
    return 0
