"""Run an SMT solver process on SMT-LIB2 text; anything but a clean sat/unsat is inconclusive."""
from __future__ import annotations

import os
import re
import shutil
import subprocess
import tempfile
import time

SOLVERS = {
    "z3-new": lambda f, t: ["z3-new", f"-T:{t}", f],
    "z3": lambda f, t: ["z3", f"-T:{t}", f],
    "cvc5": lambda f, t: ["cvc5", "--produce-models", f"--tlimit={t * 1000}", f],
}

_VAL = re.compile(r"\(\s*([A-Za-z_][A-Za-z0-9_]*)\s+(true|false)\s*\)")

_tmpdir = None


def tmpdir():
    global _tmpdir
    if _tmpdir is None or not os.path.isdir(_tmpdir):
        base = os.environ.get("VF_TMP")
        _tmpdir = tempfile.mkdtemp(prefix="vf-smt-", dir=base if base and os.path.isdir(base) else None)
    return _tmpdir


def cleanup():
    global _tmpdir
    if _tmpdir and os.path.isdir(_tmpdir):
        shutil.rmtree(_tmpdir, ignore_errors=True)
    _tmpdir = None


def solver_versions():
    out = {}
    for name, cmd in (("z3-new", ["z3-new", "--version"]), ("z3", ["z3", "--version"]), ("cvc5", ["cvc5", "--version"])):
        try:
            r = subprocess.run(cmd, capture_output=True, text=True, timeout=20)
            out[name] = r.stdout.strip().split("\n")[0]
        except Exception as e:  # noqa
            out[name] = f"unavailable: {e}"
    return out


def run(text, timeout=60, solver="z3-new", logic=None):
    """returns (verdict in sat/unsat/unknown/timeout/error, {name: bool} model of the requested values, seconds)"""
    if logic:
        text = f"(set-logic {logic})\n" + text
    fd, fn = tempfile.mkstemp(suffix=".smt2", dir=tmpdir())
    with os.fdopen(fd, "w") as f:
        f.write(text)
    t0 = time.time()
    try:
        r = subprocess.run(SOLVERS[solver](fn, int(timeout)), capture_output=True, text=True, timeout=timeout + 20)
        out = r.stdout + r.stderr
    except subprocess.TimeoutExpired:
        out = "timeout"
    finally:
        try:
            os.unlink(fn)
        except OSError:
            pass
    dt = time.time() - t0
    first = out.strip().split("\n", 1)[0].strip() if out.strip() else ""
    if "(error" in out and first != "sat" and first != "unsat":
        return "error", {"_msg": out[:300]}, dt
    if first == "sat":
        if "(error" in out:
            return "error", {"_msg": out[:300]}, dt
        model = {m.group(1): m.group(2) == "true" for m in _VAL.finditer(out)}
        return "sat", model, dt
    if first == "unsat":
        # an (error after unsat can only come from get-value on an unsat problem
        rest = out.strip().split("\n", 1)[1] if "\n" in out.strip() else ""
        if "(error" in rest and "model is not available" not in rest and "cannot get value" not in rest.lower() and "not available" not in rest:
            return "error", {"_msg": out[:300]}, dt
        return "unsat", {}, dt
    if first in ("unknown",):
        return "unknown", {}, dt
    if "timeout" in out:
        return "timeout", {}, dt
    return "error", {"_msg": out[:300]}, dt
