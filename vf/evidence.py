"""Evidence files (schema: /root/.vp/EVIDENCE.schema.json), rewritten on every run from what was measured."""
from __future__ import annotations

import collections
import json
import os

from . import solve

ROOT = os.path.dirname(os.path.dirname(os.path.abspath(__file__)))


def write(prop, ev):
    d = os.path.join(ROOT, "evidence")
    os.makedirs(d, exist_ok=True)
    with open(os.path.join(d, prop + ".json"), "w") as f:
        json.dump(ev, f, indent=1, default=str)


def _sample(r):
    d = (r.get("decided") or [{}])[0]
    return {
        "id": r.get("id"), "status": r.get("status"), "enabled": r.get("enabled"), "in": r.get("in"), "out": r.get("out"),
        "source": r.get("source"), "result_of_real_ngo": r.get("result"),
        "universe": d.get("universe"), "instance_atoms": d.get("instance_atoms"), "instances_covered": f"2^{d.get('instance_atoms')}",
        "ground_sizes": d.get("sizes"), "queries": d.get("queries"), "solver_s": round(d.get("solver_s", 0), 3),
    }


def e1_evidence(prop, tier, seed, tasks, results, violations, known_hits, harness, wall, extra_cov=None):
    st = collections.Counter(r["status"] for r in results)
    queries = collections.Counter()
    solver_s = 0.0
    inst_bits = []
    shrunk = 0
    scope_blocked = 0
    reach_unsat = 0
    for r in results:
        for d in r.get("decided", []):
            solver_s += d.get("solver_s", 0)
            if d.get("shrunk_from"):
                shrunk += 1
            scope_blocked += len(d.get("blocked_out_of_scope_cores", []))
            if d.get("reach") == "unsat":
                reach_unsat += 1
            if d.get("status") == "held":
                inst_bits.append(d.get("instance_atoms", 0))
            for q in d.get("queries", []):
                queries[f"{q.get('path')}:{q.get('verdict')}"] += 1
    decided = [r for r in results if r["status"] in ("held", "violation", "known_finding")]
    nontrivial = {(r.get("source"), json.dumps(r.get("enabled")), json.dumps(r.get("out"))) for r in decided
                  if r.get("changed") and any(d.get("reach") == "sat" for d in r.get("decided", []))}
    inconcl = [{"id": r.get("id"), "enabled": r.get("enabled"), "why": (r.get("reason") or "")[:160]} for r in results if r["status"] in ("inconclusive", "task_timeout", "task_error")][:40]
    notexp = collections.Counter((r.get("reason") or "")[:80] for r in results if r["status"] in ("not_explored", "skip"))
    samples = [_sample(r) for r in decided if r.get("changed")][:3] or [_sample(r) for r in decided][:3] or [{"note": "nothing decided"}]
    cov = {
        "programs": len(decided),
        "disagreements_checked": sum(1 for r in results for d in r.get("decided", []) for q in d.get("queries", []) if q.get("verdict") == "sat" and not q.get("q", "").startswith("reach")),
        "samples": samples,
        "evaluations": len(results),
        "distinct_nontrivial": len(nontrivial),
        "rule": "one evaluation = one (corpus program, ngo configuration) pair pushed through the real ngo and decided by the SMT solver for ALL instances over the stated universe; "
                "non-trivial = the rewrite changed the program w.r.t. ngo's normal form AND the reachability twin (source has an answer set for some instance) is sat; distinct by (source text, traits, OUT)",
        "status_counts": dict(st),
        "queries_by_path_and_verdict": dict(queries),
        "solver_seconds_total": round(solver_s, 2),
        "instance_atoms_per_decided_pair(min,median,max)": (min(inst_bits), sorted(inst_bits)[len(inst_bits) // 2], max(inst_bits)) if inst_bits else None,
        "universe_shrunk_after_timeout": shrunk,
        "out_of_scope_cores_blocked": scope_blocked,
        "vacuous_pairs(reach unsat)": reach_unsat,
        "inconclusive": inconcl,
        "not_explored_or_skipped": dict(notexp),
        "known_findings_hit": {k: len(v) for k, v in known_hits.items()},
        "harness_errors": [{"id": h.get("id"), "why": h.get("reason")} for h in harness][:10],
        "functions_encoded": "answer-set semantics of gringo's open grounding of the source and of the text returned by the real ngo.api.optimize (passes enabled per task) -- see DESIGN.md section 2",
        "bounds": "universe per argument position of every input predicate as recorded per sample (default 3 values, coverage-guided choice, shrunk on solver timeout); solver budget per query: quick 12 s / thorough 60 s (300 s per program and configuration); thorough decides every pair over two universes (the second one around a larger constant of the program, else one with a negative value); outside: larger universes, terms not in the universe, theory atoms, externals (non head-cycle-free disjunction, e.g. gringo's translation of recursive non-monotone aggregates, is encoded with a universally quantified unfounded-set block)",
        "solvers": solve.solver_versions(),
        "exhaustive": False,
    }
    if extra_cov:
        cov.update(extra_cov)
    return {
        "property_id": prop, "tier": tier, "seed": seed, "level": "translation_validation", "coverage": cov,
        "assumptions": ["gringo's grounding defines the semantics", "clingo's AST printer/parser", "z3 5.1.0 (cross-checked on samples by z3 4.8.12 / cvc5)",
                        "the program quantifier is a corpus (T: repository test inputs, L: lifted, G: generated families): sampled, not symbolic"],
        "wall_s": round(wall, 2), "violations": len(violations),
    }
