"""CrossHair harnesses for C19 (command line = API).  PEP-316 contracts; every function is one condition.
The REAL ngo.utils.parser actions, the REAL parser object and the REAL ngo.__main__.main are executed; only C-level I/O
(parse_files, logging.basicConfig) and optimize (recorded) are stubbed."""
import argparse
import io
import sys
from argparse import ArgumentTypeError, Namespace
from typing import Dict, List, Tuple

import ngo.__main__ as M
from ngo.utils.ast import Predicate
from ngo.utils.parser import ALL_OPTIONS, DEFAULT_OPTIONS, PredicateList, VerifyEnable, get_parser

NINE = ["minmax_chains", "symmetry", "duplication", "cleanup", "unused", "sum_chains", "math", "inline", "projection"]
EIGHT = [t for t in NINE if t != "duplication"]
CHOICES = ["all", "none", "default"] + NINE
ALPHA = "abB_"
import os as _os

MAXLEN = int(_os.environ.get("VF_C19_MAXLEN", "2"))


def spec(values: List[str]) -> set:
    """the documented expansion: all = nine traits, default = all but duplication, names = themselves, default + names = union"""
    if "all" in values:
        return set(NINE)
    s = set(v for v in values if v not in ("default", "none", "all"))
    if "default" in values:
        s |= set(EIGHT)
    return s


def _enable(values: List[str]) -> List[str]:
    ns = Namespace()
    VerifyEnable(option_strings=["--enable"], dest="enable", nargs="+")(None, ns, list(values), None)
    return list(ns.enable)


def enable_expansion(codes: List[int]) -> List[str]:
    """
    pre: 1 <= len(codes) <= MAXLEN
    pre: all(0 <= c < 12 for c in codes)
    post: set(t for t in __return__ if t != "none") == spec([CHOICES[c] for c in codes]) and all(t in NINE or t == "none" for t in __return__)
    raises: ArgumentTypeError
    """
    return _enable([CHOICES[c] for c in codes])


def enable_none_rejected(codes: List[int]) -> bool:
    """
    pre: 2 <= len(codes) <= MAXLEN
    pre: all(0 <= c < 12 for c in codes)
    pre: any(c == 1 for c in codes)
    post: __return__
    """
    try:
        _enable([CHOICES[c] for c in codes])
    except ArgumentTypeError:
        return True
    return False


def enable_accepted(codes: List[int]) -> bool:
    """
    pre: 1 <= len(codes) <= MAXLEN
    pre: all(0 <= c < 12 for c in codes)
    pre: len(codes) == 1 or all(c != 1 for c in codes)
    post: __return__
    """
    try:
        _enable([CHOICES[c] for c in codes])
    except ArgumentTypeError:
        return False
    return True


def _name(cs: List[int]) -> str:
    return "".join(ALPHA[c] for c in cs)


def _plist(values) -> object:
    ns = Namespace()
    PredicateList(option_strings=["--input-predicates"], dest="ip", nargs="?")(None, ns, values, None)
    return ns.ip


def _ok(n: str) -> bool:
    return 1 <= len(n) <= 2 and all(c in "abB_" for c in n)


def predicate_list(n1: str, a1: int, n2: str, a2: int, two: bool) -> List[Predicate]:
    """
    pre: _ok(n1) and _ok(n2) and 0 <= a1 <= 9 and 0 <= a2 <= 9
    post: __return__ == ([Predicate(n1, a1), Predicate(n2, a2)] if two else [Predicate(n1, a1)])
    raises: ArgumentTypeError
    """
    s = n1 + "/" + str(a1)
    if two:
        s = s + "," + n2 + "/" + str(a2)
    return _plist(s)


def predicate_keyword_name(head: int, suf: int, a1: int) -> List[Predicate]:
    """
    pre: 0 <= head <= 3 and 0 <= suf <= 3 and head + suf >= 1
    pre: 0 <= a1 <= 9
    post: __return__ == [Predicate(["", "a", "b", "_"][head] + "auto" + ["", "a", "b", "_"][suf], a1)]
    raises: ArgumentTypeError
    """
    # names around the option keyword; the characters are picked by symbolic integers because CrossHair's model of
    # split/strip on a symbolic string that embeds a literal gave a counterexample that does not reproduce
    return _plist(["", "a", "b", "_"][head] + "auto" + ["", "a", "b", "_"][suf] + "/" + str(a1))


def predicate_special(which: int) -> object:
    """
    pre: 0 <= which <= 2
    post: __return__ == ("auto" if which == 0 else [])
    """
    return _plist(["auto", "", None][which])


def predicate_malformed(which: int) -> bool:
    """
    pre: 0 <= which <= 3
    post: __return__
    """
    try:
        _plist(["a", "a/b", "a/1/2", "a/1,b"][which])
    except ArgumentTypeError:
        return True
    return False


class _Parser:
    def __init__(self, ns):
        self.ns = ns

    def parse_args(self):
        return self.ns


def _run_main(values: List[str], in_value: object, out_value: object, k: int, stms: object = None):
    ns = Namespace(log="ERROR")
    VerifyEnable(option_strings=["--enable"], dest="enable", nargs="+")(None, ns, list(values), None)
    PredicateList(option_strings=["--input-predicates"], dest="input_predicates", nargs="?")(None, ns, in_value, None)
    PredicateList(option_strings=["--output-predicates"], dest="output_predicates", nargs="?")(None, ns, out_value, None)
    captured: Dict[str, bool] = {}
    seen: List[object] = [None, None]
    printed: List[str] = []

    def fake_opt(prg, i, o, **kw):
        captured.update(kw)
        seen[0], seen[1] = i, o
        return list(stms) if stms is not None else ["s%d" % j for j in range(k)]

    saved = (M.get_parser, M.parse_files, M.optimize, M.logging.basicConfig, M.auto_detect_input, M.auto_detect_output)
    M.get_parser = lambda: _Parser(ns)
    M.parse_files = lambda *a, **kw: None
    M.optimize = fake_opt
    M.logging.basicConfig = lambda **kw: None
    M.auto_detect_input = lambda prg: "AUTO_IN"
    M.auto_detect_output = lambda prg: "AUTO_OUT"
    M.print = lambda *a, **kw: printed.append(" ".join(str(x) for x in a))
    try:
        M.main()
    finally:
        M.get_parser, M.parse_files, M.optimize, M.logging.basicConfig, M.auto_detect_input, M.auto_detect_output = saved
        del M.print
    return captured, seen[0], seen[1], printed


def main_flags(codes: List[int]) -> Dict[str, bool]:
    """
    pre: 1 <= len(codes) <= 2
    pre: all(0 <= c < 12 for c in codes)
    pre: len(codes) == 1 or all(c != 1 for c in codes)
    post: all(__return__[t] == (t in spec([CHOICES[c] for c in codes])) for t in NINE) and len(__return__) == 9
    """
    return _run_main([CHOICES[c] for c in codes], "auto", "auto", 1)[0]


def main_inout(in_case: int, out_case: int) -> Tuple[object, object]:
    """
    pre: 0 <= in_case <= 3 and 0 <= out_case <= 3
    post: __return__[0] == ("AUTO_IN" if in_case == 0 else ([] if in_case in (1, 2) else [Predicate("p", 1)]))
    post: __return__[1] == ("AUTO_OUT" if out_case == 0 else ([] if out_case in (1, 2) else [Predicate("q", 2)]))
    """
    r = _run_main(["default"], ["auto", "", None, "p/1"][in_case], ["auto", "", None, "q/2"][out_case], 1)
    return r[1], r[2]


def main_print(k: int) -> List[str]:
    """
    pre: 0 <= k <= 3
    post: __return__ == ["s%d" % i for i in range(k)]
    """
    return _run_main(["none"], "", "", k)[3]


def main_print_repeated(codes: List[int]) -> List[str]:
    """
    pre: len(codes) <= 3 and all(0 <= c <= 1 for c in codes)
    post: __return__ == ["s%d" % c for c in codes]
    """
    return _run_main(["none"], "", "", 0, ["s%d" % c for c in codes])[3]


def parser_predicates(n1: List[int], a1: int, out: bool) -> List[Predicate]:
    """
    pre: 1 <= len(n1) <= 2
    pre: all(0 <= c < 4 for c in n1)
    pre: 0 <= a1 <= 9
    post: __return__ == [Predicate(_name(n1), a1)]
    """
    opt = "--output-predicates" if out else "--input-predicates"
    ns = get_parser().parse_args([opt + "=" + _name(n1) + "/" + str(a1)])
    return ns.output_predicates if out else ns.input_predicates


def parser_defaults(which: int) -> bool:
    """
    pre: 0 <= which <= 3
    post: __return__
    """
    ns = get_parser().parse_args([[], ["--output-predicates"], ["--input-predicates"], ["--enable", "default"]][which])
    if which == 0:
        return ns.input_predicates == "auto" and ns.output_predicates == "auto" and set(ns.enable) == set(EIGHT) and ns.log == "INFO"
    if which == 1:
        return ns.output_predicates == []
    if which == 2:
        return ns.input_predicates == []
    return set(ns.enable) == set(EIGHT)


def parser_enable(codes: List[int]) -> List[str]:
    """
    pre: 1 <= len(codes) <= 2
    pre: all(0 <= c < 12 for c in codes)
    pre: len(codes) == 1 or all(c != 1 for c in codes)
    post: set(t for t in __return__ if t != "none") == spec([CHOICES[c] for c in codes]) and all(t in NINE or t == "none" for t in __return__)
    """
    ns = get_parser().parse_args(["--enable"] + [CHOICES[c] for c in codes])
    return list(ns.enable)
