"""CrossHair harnesses for the name allocators (C07): one step from an ARBITRARY allocator state.
The state is drawn from a candidate pool that contains every name the function can test (it only tests membership)."""
from typing import List

from clingo.ast import Variable

from ngo.utils.ast import LOC, Predicate
from ngo.utils.globals import UniqueNames, UniqueVariables


def _names(base: str, k: int) -> List[str]:
    return [base] + [base + str(i) for i in range(1, k)]


def fresh_predicate(mask: List[bool], arity: int, other_arity_taken: bool) -> bool:
    """
    pre: len(mask) == 5 and 0 <= arity <= 2
    post: __return__
    """
    un = UniqueNames([], [])
    pool = _names("x", 5)
    for name, taken in zip(pool, mask):
        if taken:
            un.predicates.add(Predicate(name, arity))
    if other_arity_taken:
        un.predicates.add(Predicate("x", arity + 1))
    before = set(un.predicates)
    if all(mask):
        return True  # the pool is exhausted: outside the bound
    p = un.new_predicate("x", arity)
    return p not in before and p in un.predicates and p.arity == arity and len(un.predicates) == len(before) + 1


def fresh_aux(mask: List[bool], counter: int, arity: int) -> bool:
    """
    pre: len(mask) == 6 and 0 <= counter <= 2 and 0 <= arity <= 2
    post: __return__
    """
    un = UniqueNames([], [])
    un.auxcounter = counter
    for i, taken in enumerate(mask):
        if taken:
            un.predicates.add(Predicate("__aux_" + str(i + 1), arity))
    before = set(un.predicates)
    if all(mask[counter:]):
        return True  # every candidate the step could reach inside the pool is taken: outside the bound
    p = un.new_auxpredicate(arity)
    q = un.new_auxpredicate(arity) if not all(mask[counter + 1:]) and sum(1 for m in mask[counter:] if not m) >= 2 else None
    ok = p not in before and p in un.predicates and p.name.startswith("__aux_") and p.arity == arity
    if q is not None:
        ok = ok and q != p and q not in before
    return ok


def fresh_variable(mask: List[bool], second: bool) -> bool:
    """
    pre: len(mask) == 4
    post: __return__
    """
    uv = UniqueVariables.__new__(UniqueVariables)
    pool = ["AUX", "AUX0", "AUX1", "AUX2"]
    uv._allvars = [Variable(LOC, n) for n, t in zip(pool, mask) if t]
    before = [v.name for v in uv._allvars]
    if all(mask):
        return True
    v = uv.make_unique(Variable(LOC, "AUX"))
    ok = v.name not in before and v.name in [x.name for x in uv._allvars]
    if second and sum(1 for m in mask if not m) >= 2:
        w = uv.make_unique(Variable(LOC, "AUX"))
        ok = ok and w.name != v.name and w.name not in before
    return ok


def anonymous_stays(mask: List[bool]) -> bool:
    """
    pre: len(mask) == 2
    post: __return__
    """
    uv = UniqueVariables.__new__(UniqueVariables)
    uv._allvars = [Variable(LOC, n) for n, t in zip(["_", "X"], mask) if t]
    return uv.make_unique(Variable(LOC, "_")).name == "_"
