"""C19: the command line is the API.  E3 (DESIGN.md section 5): CrossHair (symbolic execution with z3) on the real option
actions, the real parser object and the real ngo.__main__.main with C-level I/O stubbed; every counterexample is replayed
in plain Python, and a set of boundary configurations is pushed through the real CLI as a subprocess."""
from __future__ import annotations

import ast as pyast
import json
import os
import re
import subprocess
import sys
import time
from concurrent.futures import ThreadPoolExecutor

ROOT = os.path.dirname(os.path.dirname(os.path.abspath(__file__)))
HARNESS = os.path.join(ROOT, "vf", "ch", "c19_harness.py")
PY = "/venv/bin/python"

CONDITIONS = ["enable_expansion", "enable_none_rejected", "enable_accepted", "predicate_list", "predicate_keyword_name", "predicate_special", "predicate_malformed",
              "main_flags", "main_inout", "main_print", "main_print_repeated", "parser_predicates", "parser_defaults", "parser_enable"]


def env(maxlen):
    e = dict(os.environ)
    e["PYTHONPATH"] = os.environ.get("PYTHONPATH", "") + ":" + ROOT + ":" + os.path.join(ROOT, ".deps")
    e["VF_C19_MAXLEN"] = str(maxlen)
    e["PYTHONHASHSEED"] = "0"
    return e


def line_of(fn, harness=None):
    for i, l in enumerate(open(harness or HARNESS).read().split("\n"), 1):
        if l.startswith(f"def {fn}("):
            return i + 2
    raise KeyError(fn)


def run_condition(fn, timeout, maxlen, harness=None):
    t0 = time.time()
    cmd = [PY, "-m", "crosshair", "check", "--report_all", "--per_condition_timeout", str(timeout), f"{harness or HARNESS}:{line_of(fn, harness)}"]
    try:
        r = subprocess.run(cmd, capture_output=True, text=True, env=env(maxlen), timeout=timeout * 3 + 60)
        out = r.stdout + r.stderr
    except subprocess.TimeoutExpired:
        out = "harness timeout"
    res = {"condition": fn, "s": round(time.time() - t0, 1), "verdicts": []}
    for l in out.split("\n"):
        m = re.search(r"(error|info): (.*)$", l)
        if m:
            res["verdicts"].append(m.group(2).strip())
    if not res["verdicts"]:
        res["verdicts"].append("no verdict: " + out.strip()[-200:])
    return res


def replay_call(expr, maxlen, module="vf.ch.c19_harness"):
    """evaluate a CrossHair counterexample call in plain Python on the real code and re-check the postconditions"""
    code = f"""
import sys, json
sys.path.insert(0, {ROOT!r})
import {module} as H
from argparse import ArgumentTypeError
fn = H.{expr.split('(')[0]}
doc = fn.__doc__
posts = [l.split('post:',1)[1].strip() for l in doc.split('\\n') if l.strip().startswith('post:')]
raises = any(l.strip().startswith('raises:') for l in doc.split('\\n'))
import inspect
sig = inspect.signature(fn)
try:
    call = eval('dict(' + {expr!r}.split('(',1)[1].rsplit(')',1)[0] + ')', vars(H)) if '=' in {expr!r} else None
except Exception:
    call = None
args = eval('(' + {expr!r}.split('(',1)[1].rsplit(')',1)[0] + ',)', vars(H)) if call is None else ()
try:
    ret = fn(*args) if call is None else fn(**call)
except ArgumentTypeError as e:
    print(json.dumps({{"raised": str(e), "allowed": raises}})); sys.exit(0 if raises else 1)
bound = sig.bind(*args) if call is None else sig.bind(**call)
ns = dict(vars(H)); ns.update(bound.arguments); ns['__return__'] = ret; ns['_'] = ret
bad = [p for p in posts if not eval(p, ns)]
print(json.dumps({{"return": repr(ret), "violated_posts": bad}}))
sys.exit(1 if bad else 0)
"""
    r = subprocess.run([PY, "-c", code], capture_output=True, text=True, env=env(maxlen), timeout=120)
    return r.returncode, (r.stdout + r.stderr).strip()[-600:]


# ------------------------------------------------------------------------------------------- real CLI
PROGRAMS = [
    "b(X) :- c(X).\n{ a } :- b(X).\nfoo :- a.\n#show foo/0.",
    "foo :- a, b, c.\nbar :- a, b, d.\n{ a ; b ; c ; d }.",
    "{ shift(D,L) : pshift(D,L) } 1 :- day(D).\n#minimize { L,D : shift(D,L) }.\n{ s(P,V) } :- ps(P,V).\nr(P,X) :- g(P), X = #max { V : s(P,V) }.",
    "itemWeight(I,W,X) :- item(I,W), x(X).\nheavy(I) :- itemWeight(I,W,_), W > 3.\n#show heavy/1.",
    "p(1). p(1,2).\nq :- p(X). r :- p(X,Y).\n#show q/0.",
    # statements that occur twice and re-entered program parts: every returned statement is printed, in order
    "{ b ; d }. { e(1) }.\na :- b.\na :- b.\n#program extra.\nc :- d.\nc :- d.\n#program base.\nbig(X) :- e(X).\n#program extra.\nc2 :- c.",
    # predicate names that contain the option keyword
    "automaton(X,Y) :- edge(X,Y).\nauto(X) :- automaton(X,_), start(X).\nautostart(X) :- auto(X), not edge(X,X).",
]
# (program index, enable, input predicates, output predicates) that are always part of the run
FIXED_CASES = [
    (5, None, None, None), (5, ["none"], None, None), (5, ["all"], [], []),
    (6, None, [("edge", 2), ("start", 1)], [("auto", 1)]), (6, None, None, [("automaton", 2)]), (6, None, [("auto", 1)], [("autostart", 1)]),
    (6, ["none"], [("automaton", 2)], []), (6, None, "auto", [("autostart", 1)]),
]
NINE = ["minmax_chains", "symmetry", "duplication", "cleanup", "unused", "sum_chains", "math", "inline", "projection"]
EIGHT = [t for t in NINE if t != "duplication"]


def expansion(values):
    if values is None:
        return set(EIGHT)
    if "all" in values:
        return set(NINE)
    s = set(v for v in values if v in NINE)
    if "default" in values:
        s |= set(EIGHT)
    return s


def expected(program, enable, inp, outp):
    """in-process: the documented expansion pushed through the real optimize"""
    code = f"""
import sys, json, logging
logging.disable(logging.CRITICAL)
from clingo.ast import parse_string
from ngo import optimize, auto_detect_input, auto_detect_output, Predicate
prg = []
parse_string({program!r}, prg.append)
def conv(x, auto):
    if x == 'auto' or x is None: return auto(prg)
    return [Predicate(n, a) for n, a in x]
ip = conv({inp!r}, auto_detect_input); op = conv({outp!r}, auto_detect_output)
flags = {{t: (t in {sorted(expansion(enable))!r}) for t in {NINE!r}}}
res = optimize(prg, ip, op, **flags)
sys.stdout.write("".join(str(s) + "\\n" for s in res))
"""
    r = subprocess.run([PY, "-c", code], capture_output=True, text=True, timeout=300)
    return r.returncode, r.stdout


def cli(program, argv):
    r = subprocess.run([PY, "-m", "ngo"] + argv, input=program, capture_output=True, text=True, timeout=300)
    return r.returncode, r.stdout, r.stderr


def plist_arg(x):
    return ",".join(f"{n}/{a}" for n, a in x)


def cli_cases(tier, seed):
    import random

    rnd = random.Random(seed)
    cases = []
    enables = [None, ["all"], ["none"], ["default"], ["default", "duplication"], ["duplication", "default"], ["math"], ["sum_chains"], ["minmax_chains"],
               ["cleanup", "unused"], ["default", "math"], ["inline", "projection", "symmetry"]]
    if tier == "thorough":
        enables += [[a, b] for a in ["default"] + NINE for b in NINE if a != b][::3]
    ios = [(None, None), ("auto", "auto"), ([], []), ("", ""), ([("c", 1)], [("foo", 0)]), ([("item", 2), ("x", 1)], [("itemWeight", 3)]), (None, [("p", 1), ("p", 2)]), ([("pshift", 2), ("day", 1), ("ps", 2), ("g", 1)], [("shift", 2), ("r", 2)])]
    for pi, prog in enumerate(PROGRAMS):
        for en in enables:
            for io in (ios if tier == "thorough" else rnd.sample(ios, 3)):
                cases.append((pi, en, io[0], io[1], "ERROR"))
    for lvl in ["ERROR", "WARNING", "INFO", "DEBUG", "info"]:
        cases.append((0, None, None, None, lvl))
    if tier == "quick":
        cases = cases[:: max(1, len(cases) // 45)]
    cases += [(pi, en, i, o, "ERROR") for pi, en, i, o in FIXED_CASES]
    return cases


def run_cli_case(case):
    pi, en, inp, outp, lvl = case
    prog = PROGRAMS[pi]
    argv = ["--log", lvl]
    if en is not None:
        argv += ["--enable"] + en
    for opt, v in (("--input-predicates", inp), ("--output-predicates", outp)):
        if v is None:
            continue
        if v == "":
            argv += [opt]
        elif v == "auto":
            argv += [opt + "=auto"]
        elif v == []:
            argv += [opt + "="]
        else:
            argv += [opt + "=" + plist_arg(v)]
    rc, out, err = cli(prog, argv)
    erc, eout = expected(prog, en, None if inp in (None, "auto") else ([] if inp in ("", []) else inp), None if outp in (None, "auto") else ([] if outp in ("", []) else outp))
    problems = []
    if erc != 0:
        return {"case": [pi, en, inp, outp, lvl], "skipped": "optimize raised in-process (C03)"}
    if rc != 0:
        problems.append(f"exit status {rc}")
    if out != eout:
        problems.append("stdout differs from optimize(...) for the documented expansion")
    return {"case": [pi, en, inp, outp, lvl], "argv": argv, "problems": problems, "stdout": out[:300], "expected": eout[:300]}


def run_reject_case(argv):
    rc, out, err = cli(PROGRAMS[0], argv)
    problems = []
    if rc == 0:
        problems.append("invalid combination accepted")
    if out:
        problems.append("output written although the options were rejected")
    return {"case": argv, "argv": argv, "problems": problems}


def run(tier, seed):
    from . import evidence

    t0 = time.time()
    maxlen = 2 if tier == "quick" else 3
    timeout = 100 if tier == "quick" else 600
    with ThreadPoolExecutor(max_workers=12) as ex:
        cond_f = [ex.submit(run_condition, c, timeout, maxlen) for c in CONDITIONS]
        cases = cli_cases(tier, seed)
        cli_f = [ex.submit(run_cli_case, c) for c in cases]
        rej_f = [ex.submit(run_reject_case, a) for a in (["--enable", "none", "math"], ["--enable", "bogus"], ["--input-predicates=a"], ["--output-predicates=a/b"], ["--log", "nope"], ["--enable"])]
        conds = [f.result() for f in cond_f]
        clis = [f.result() for f in cli_f] + [f.result() for f in rej_f]
    violations, inconclusive, harness = [], [], []
    for c in conds:
        for v in c["verdicts"]:
            if v.startswith("Confirmed"):
                continue
            m = re.search(r"(?:false|\w+Error[^w]*) when calling (.*?)(?: \(which returns| with|$)", v)
            if m and ("false when calling" in v or "Error" in v.split(" when calling")[0]):
                rc, out = replay_call(m.group(1).strip(), maxlen)
                if rc == 1:
                    violations.append({"condition": c["condition"], "counterexample": m.group(1).strip(), "crosshair": v[:300], "replay": out})
                else:
                    harness.append({"condition": c["condition"], "why": "CrossHair counterexample does not reproduce in plain Python", "crosshair": v[:300], "replay": out})
            else:
                inconclusive.append({"condition": c["condition"], "verdict": v[:200]})
    for r in clis:
        if r.get("problems"):
            violations.append({"condition": "real CLI", "counterexample": r["argv"], "problems": r["problems"], "stdout": r.get("stdout"), "expected": r.get("expected")})
    for i, v in enumerate(violations[:6]):
        d = os.path.join(ROOT, "evidence", "replay", "C19", f"cex{i}")
        os.makedirs(d, exist_ok=True)
        json.dump({"property": "C19", "kind": "c19", **v}, open(os.path.join(d, "config.json"), "w"), indent=1, default=str)
        print(f"VIOLATION property=C19 replay={d}")
    confirmed = sum(1 for c in conds for v in c["verdicts"] if v.startswith("Confirmed"))
    total = sum(len(c["verdicts"]) for c in conds)
    ev = {
        "property_id": "C19", "tier": tier, "seed": seed, "level": "other",
        "coverage": {
            "explanation": "CrossHair 0.0.110 (symbolic execution of Python with z3) on the REAL VerifyEnable / PredicateList actions, the REAL argparse parser returned by get_parser() "
                           "and the REAL ngo.__main__.main (parse_files, logging.basicConfig, optimize and auto_detect_* stubbed/recorded); option tokens are chosen by symbolic indices into the "
                           "parser's own choices, predicate names are symbolic strings; plus concrete runs of the real CLI as a subprocess compared with optimize() for the documented expansion",
            "evaluations": total + len(clis), "distinct_nontrivial": confirmed + sum(1 for r in clis if "problems" in r and not r["problems"]),
            "rule": "evaluations = CrossHair conditions (one verdict per postcondition) + real-CLI runs; non-trivial = condition 'Confirmed over all paths' / CLI run whose stdout and exit status match",
            "samples": [conds[0], clis[0]] if clis else [conds[0]],
            "conditions": conds, "confirmed_over_all_paths": confirmed, "postconditions": total, "inconclusive": inconclusive,
            "cli_runs": len(clis), "cli_skipped": sum(1 for r in clis if r.get("skipped")),
            "bounds": f"--enable lists of length <= {maxlen} over the 12 choices; predicate names of <= 2 characters over 'abB_', arities 0..9, lists of <= 2 entries; "
                      f"per-condition timeout {timeout} s; outside: longer lists/names; argparse internals are only covered on the paths the bounded inputs reach",
            "functions_encoded": ["ngo.utils.parser.VerifyEnable.__call__", "ngo.utils.parser.PredicateList.__call__", "ngo.utils.parser.get_parser", "ngo.__main__.main"],
            "stubs": ["clingo.ast.parse_files -> no-op", "logging.basicConfig -> no-op", "ngo.api.optimize -> records its arguments, returns k sentinel statements", "auto_detect_input/output -> sentinels", "print -> recorded"],
            "harness_errors": harness[:5],
        },
        "assumptions": ["CrossHair's models of list/str/dict", "z3", "for enum-valued inputs this is solver-steered path enumeration (all paths within the bound), said so in DESIGN.md"],
        "wall_s": round(time.time() - t0, 2), "violations": len(violations),
    }
    evidence.write("C19", ev)
    print(f"[C19] CrossHair: {confirmed}/{total} postconditions confirmed over all paths, {len(inconclusive)} inconclusive; real-CLI runs {len(clis)}; violations {len(violations)}; harness errors {len(harness)}; wall {time.time()-t0:.0f}s")
    if violations:
        return 1
    if harness or confirmed == 0:
        for h in harness[:3]:
            print("HARNESS-ERROR C19", json.dumps(h)[:400], file=sys.stderr)
        return 3
    return 0


def replay(path, cfg):
    print(json.dumps(cfg, indent=1)[:2000])
    if cfg.get("condition") == "real CLI":
        rc, out, err = cli(PROGRAMS[0], cfg["counterexample"]) if not isinstance(cfg["counterexample"], str) else (0, "", "")
        print("exit", rc, "stdout:", out[:500])
        return 1
    rc, out = replay_call(cfg["counterexample"], 3)
    print(out)
    if rc == 1:
        print(f"VIOLATION property=C19 replay={path}")
    return rc
